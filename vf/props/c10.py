"""C10 - delayed reactions deliver their delayed part exactly once, after the delay (engine E1)."""
import itertools, math
import numpy as np
from ..core import pmap
from .. import explore as EXP
from .. import e1
from ..nets import spec, ma
from ..ref import ssa as RS
from ..util import Stream

A, B, C, D = 'A', 'B', 'C', 'D'
TIMES = {'nu5': [0.0, 0.25, 0.5, 1.0, 1.25],      # uneven: the entry point warns and simulates; the queue's step is the first interval
         'u5': [0.0, 0.25, 0.5, 0.75, 1.0], 'u4h': [0.0, 0.5, 1.0, 1.5], 'u7': [0.25 * i for i in range(7)]}


def dly(typ, reactants=(), products=(), **kw):
    d = dict(type=typ, reactants=list(reactants), products=list(products))
    d.update(kw)
    return d


def delay_variants(tier):
    fixed = [0.0, 0.0025, 0.1, 0.3, 0.6, 1.5, 5.0] if tier == 'thorough' else [0.0, 0.0025, 0.3, 0.6, 1.5, 5.0]   # 1.5: one slot beyond the 5-slot horizon
    out = [dict(type='fixed', delay=v) for v in fixed]
    out += [dict(type='gaussian', mean=0.4, std=0.3)]
    ks = [1.0, 2.5, 4.0] if tier == 'thorough' else [1.0, 2.5]        # shape exactly 1 is the exponential special case
    out += [dict(type='gamma', k=k, theta=0.15) for k in ks]
    if tier == 'thorough':
        out += [dict(type='gaussian', mean=0.1, std=0.5), dict(type='fixed', delay='tau')]
    return out


def networks(dv, n0=2, k1=1.5, k2=0.5):
    def D_(reactants=(), products=()):
        d = dict(dv)
        d.update(reactants=list(reactants), products=list(products))
        return d
    P = {'tau': 0.35}
    nets = [
        spec('D1_delayed_product', [A, B, C], {A: n0, B: 0, C: 0},
             [dict(ma([A], [B], k1), delay=D_([], [C])), ma([B], [A], k2)], params=P),
        spec('D2_delayed_reactant', [A, B, C], {A: n0, B: 0, C: 2},
             [dict(ma([A], [B], k1), delay=D_([C], [])), ma([B], [A], k2)], params=P),
        spec('D3_both', [A, B, C, D], {A: n0, B: 0, C: 1, D: 0},
             [dict(ma([A], [B], k1), delay=D_([C], [D, D])), ma([B], [A], k2), ma([D], [C], k2)], params=P),
        spec('D4_two_delayed', [A, B, C], {A: n0, B: 1, C: 0},
             [dict(ma([A], [], k1), delay=D_([], [B])), dict(ma([B], [], k2), delay=dict(type='fixed', delay=0.3, reactants=[], products=[C])),
              ma([C], [A], k2)], params=P),
        # a reaction whose delayed part only consumes, listed after / before one whose delayed part only produces
        spec('D5_product_then_reactant', [A, B, C, D], {A: n0, B: 0, C: 3, D: 0},
             [dict(ma([A], [D], k1), delay=D_([], [B])), dict(ma([D], [A], k2), delay=D_([C], []))], params=P),
        spec('D5r_reactant_then_product', [A, B, C, D], {A: n0, B: 0, C: 3, D: 0},
             [dict(ma([A], [D], k2), delay=D_([C], [])), dict(ma([D], [A], k1), delay=D_([], [B]))], params=P),
    ]
    return nets


def configs(tier):
    out = []
    for dv in delay_variants(tier):
        for sp in networks(dv):
            grids = ['u5'] if tier == 'quick' else ['u5', 'u4h', 'u7']
            for g in grids:
                for safe in ((False, True) if tier == 'thorough' or sp['name'].startswith('D2') else (False,)):
                    for route in ('delay', 'entry'):
                        if route == 'entry' and (g != 'u5'):
                            continue
                        out.append(dict(spec=sp, grid=g, safe=safe, route=route,
                                        bound=2 if tier == 'quick' else 3))
            # an uneven grid (queue step = first interval, as many slots as time points)
            # (not with a volume: there the step is the interface's default dt = 0.01, which is not a binary fraction of the grid)
            for route in ('entry', 'delay'):
                if tier == 'thorough' or route == 'entry' or sp['name'].startswith('D3'):
                    out.append(dict(spec=sp, grid='nu5', safe=False, route=route, bound=2))
            # the same time values as a strided view / a table column (gaps hold other plausible times), uneven and even grid
            if dv.get('type') == 'fixed' and dv.get('delay') in (0.3, 0.6):
                out.append(dict(spec=sp, grid='nu5', safe=False, route='delay', bound=2, times_repr='strided'))
                out.append(dict(spec=sp, grid='nu5', safe=False, route='entry', bound=2, times_repr='column'))
                out.append(dict(spec=sp, grid='u5', safe=False, route='delayvol', bound=2, times_repr='strided'))
                out.append(dict(spec=sp, grid='u5', safe=False, route='volume', bound=2, times_repr='column'))
            # simulators without delay support: both parts at the firing time
            out.append(dict(spec=sp, grid='u5', safe=False, route='ssa', bound=2))
            out.append(dict(spec=sp, grid='u5', safe=False, route='volume', bound=2))
            # the delayed reaction added to a model that was already initialised (and simulated) once
            if sp['name'].startswith(('D1', 'D4')):
                out.append(dict(spec=sp, grid='u5', safe=False, route='delay', bound=2, incremental=True))
            # delay together with a volume (entry point -> DelayVolumeSSASimulator)
            out.append(dict(spec=sp, grid='u5', safe=False, route='delayvol', bound=2))
    out.append(dict(route='samplers', spec=dict(name='samplers'), grid='-', safe=False, bound=0))
    return out


def feasible(spec_, x0, xlast, pending, max_events):
    """x_last + Sd.pending - x0 in cone{nu_j + nud_j} with at most max_events firings (bounded integer search)"""
    from ..ref import crn
    S, Sd = crn.stoich(spec_)
    ns, nr = len(S), len(S[0])
    target = [xlast[i] + sum(Sd[i][j] * pending[j] for j in range(nr)) - x0[i] for i in range(ns)]
    full = [[S[i][j] + Sd[i][j] for j in range(nr)] for i in range(ns)]
    for n in itertools.product(range(max_events + 1), repeat=nr):
        if sum(n) > max_events or any(n[j] < pending[j] for j in range(nr)):
            continue
        if all(abs(sum(full[i][j] * n[j] for j in range(nr)) - target[i]) < 1e-9 for i in range(ns)):
            return True
    return False


def run_config(c, cfg):
    if cfg['route'] == 'samplers':
        return samplers(c)
    sp = cfg['spec']
    times = TIMES[cfg['grid']]
    qdt = times[1] - times[0]
    ncols = len(times)
    if cfg.get('incremental'):
        # reaction order of the model: the non-delayed reactions first, the (first) delayed one appended after an initialisation
        sp = dict(sp, reactions=sp['reactions'][1:] + sp['reactions'][:1])
        from ..modelspec import reaction_tuple
        first = dict(sp, reactions=sp['reactions'][:-1])

        def prepare(model):
            from bioscrape.simulator import py_simulate_model
            model.py_initialize()
            py_simulate_model(np.array(TIMES['u5']), Model=model, stochastic=True, delay=True, return_dataframe=False)
            # a rejected edit in between (a delay whose parameter is a species): whatever it leaves behind must not matter
            try:
                model.create_reaction(['B'], ['A'], 'massaction', {'k': 0.9}, 'fixed', ['A'], ['C', 'C'], {'delay': 'A'})
            except Exception:
                pass
            else:
                raise RuntimeError('harness: a delay parameter that names a species was accepted')
            model.create_reaction(*reaction_tuple(sp['reactions'][-1]))
        impl = e1.Impl(first, cfg['safe'], prepare=prepare)
        impl.spec = sp
    else:
        impl = e1.Impl(sp, cfg['safe'])
    impl.times_repr = cfg.get('times_repr', 'plain')
    route = cfg['route']
    mode = 'stochvol' if route in ('volume', 'delayvol') else 'stoch'
    net = RS.Net(sp, mode, cfg['safe'])
    x0v = [float(sp['x0'][s]) for s in sp['species']]
    template = e1.TemplateQueue(len(sp['reactions']), ncols, qdt)     # every delay run works on a py_copy() of this queue
    states, outcomes = set(), set()
    first = [True]

    def factory():
        if route == 'ssa':
            return RS.ssa(net, times, dt=qdt)
        if route == 'volume':
            return RS.volume_ssa(net, times, qdt, dict(type='const', V=2.0))
        if route == 'delayvol':
            return RS.delay_volume_ssa(net, times, qdt, qdt, ncols, dict(type='const', V=2.0))
        return RS.delay_ssa(net, times, qdt, ncols, dt=qdt)

    def impl_run(us):
        if route == 'delayvol':
            from bioscrape.simulator import py_simulate_model
            with Stream(us) as st:
                res = py_simulate_model(impl.grid(times), Model=impl.model, stochastic=True, delay=True, volume=2.0, safe=cfg['safe'],
                                        return_dataframe=False)
            fq = res.py_get_delay_queue()
            nqt = fq.py_get_next_queue_time()
            return dict(rows=impl.rows(res.py_get_result()), consumed=st.consumed, overrun=st.overrun,
                        queue=e1._drain(fq.py_copy(), len(sp['reactions']), ncols), queue_next_time=nqt)
        if route == 'ssa':
            return impl.run_ssa(us, times, dt=qdt)
        if route == 'volume':
            return e1.run_volume(impl, us, times, qdt, dict(type='const', V=2.0))
        if route == 'entry':
            from bioscrape.simulator import py_simulate_model
            with Stream(us) as st:
                res = py_simulate_model(impl.grid(times), Model=impl.model, stochastic=True, delay=True, safe=cfg['safe'],
                                        return_dataframe=False)
            fq = res.py_get_delay_queue()
            nqt = fq.py_get_next_queue_time()
            return dict(rows=impl.rows(res.py_get_result()), consumed=st.consumed, overrun=st.overrun,
                        queue=e1._drain(fq.py_copy(), len(sp['reactions']), ncols), queue_next_time=nqt)
        return e1.run_delay(impl, us, times, qdt, ncols, dt=qdt, template=template)

    def on_trace(choices, menus, ref):
        got = impl_run(ref['us'])
        c.count('traces'); c.count('evaluations'); c.count('transitions', len(choices))
        if first[0]:
            first[0] = False
            if impl_run(ref['us']) != got:
                c.harness_error('non-deterministic replay ' + sp['name'])
        case = dict(cfg=cfg, us=ref['us'], ref_rows=ref['rows'], impl_rows=got['rows'],
                    letters=[m.letters[ch].name for m, ch in zip(menus, choices)])
        dtyp = next(r['delay']['type'] for r in cfg['spec']['reactions'] if r.get('delay'))
        pre = 'C10/%s%s/%s/%s/' % (route, '-incremental' if cfg.get('incremental') else '', dtyp, sp['name'])
        bad = e1.compare(ref, got)
        if bad:
            c.violation(pre + bad[0], bad[1], case)
        if got.get('template_touched'):
            c.violation(pre + 'template-touched', 'the run worked on a py_copy() of a template queue and wrote into the template itself', case)
        if route in ('delay', 'entry', 'delayvol'):
            if not bad and (got['queue'] != ref['queue'] or got['queue_next_time'] != ref['queue_next_time']):
                c.violation(pre + 'final-queue', 'pending deliveries differ: reference %s (next %s) implementation %s (next %s)' % (
                    ref['queue'], ref['queue_next_time'], got['queue'], got['queue_next_time']), case)
            # mapping-independent accounting on the implementation's own output
            pending = [sum(slot[j] for slot in got['queue']) for j in range(len(sp['reactions']))]
            if got['rows'] and not feasible(sp, x0v, got['rows'][-1], pending, len(ref['us'])):
                c.violation(pre + 'accounting', 'last row + queued deliveries is not x0 + a combination of complete firings: '
                            'last %s pending %s' % (got['rows'][-1], pending), case)
        for v in ref['visited']:
            states.add(v)
        outcomes.add((tuple(map(tuple, ref['rows'])), str(ref.get('queue'))))
        if len(ref['us']) > 4 and len(c.samples) < 2:
            c.sample(dict(network=sp['name'], delay=cfg['spec']['reactions'][0]['delay'], route=route, times=times,
                          letters=case['letters'], us=ref['us'], rows=ref['rows'], queue=ref.get('queue')))
    EXP.explore(factory, cfg['bound'], on_trace)
    c.count('states', len(states))
    if len(outcomes) > 1:
        c.nontrivial((sp['name'], str(cfg['spec']['reactions'][0]['delay']), cfg['grid'], cfg['safe'], route, bool(cfg.get('incremental'))))


def samplers(c):
    """Delay.py_get_delay / py_normal_rv / py_gamma_rv on a full lattice of uniforms: pointwise equal to the
    reference formulas, and the lattice-quadrature CDF matches scipy.stats (mapping-independent)."""
    import bioscrape.random as br
    from bioscrape.types import Model
    from scipy import stats
    N = 48
    lat = [(i + 0.5) / N for i in range(N)]
    qs = [0.05, 0.1, 0.25, 0.4, 0.5, 0.6, 0.75, 0.9, 0.95]
    for mean, std in ((0.4, 0.3), (2.0, 0.5), (0.0, 1.0)):
        m = Model(species=['A'], reactions=[(['A'], [], 'massaction', {'k': 1.0}, 'gaussian', [], ['A'], {'mean': mean, 'std': std})],
                  initial_condition_dict={'A': 1})
        dobj = m.get_delays()[0]
        params = m.get_parameter_values()
        vals = []
        for u in lat:
            for v in lat:
                exp = RS.normal_from(u, v, mean, std)
                with Stream([u, v]) as st:
                    g1 = br.py_normal_rv(mean, std)
                with Stream([u, v]) as st2:
                    g2 = dobj.py_get_delay(np.array([1.0]), params)
                c.count('evaluations', 2); c.count('transitions', 2)
                for g, nm, s_ in ((g1, 'py_normal_rv', st), (g2, 'GaussianDelay', st2)):
                    if abs(g - exp) > 1e-9 * (1 + abs(exp)) or s_.consumed != 2 or s_.overrun:
                        c.violation('C10/samplers/%s/pointwise' % nm, '%s(%r,%r; mean %r std %r) = %r, reference %r (draws %d+%d)' % (
                            nm, u, v, mean, std, g, exp, s_.consumed, s_.overrun), dict(cfg=dict(route='samplers'), u=u, v=v, mean=mean, std=std))
                vals.append(g2)
        vals = np.array(vals)
        for q in qs:
            xq = stats.norm.ppf(q, mean, std)
            emp = float(np.mean(vals <= xq))
            if abs(emp - q) > 2.0 / N:
                c.violation('C10/samplers/GaussianDelay/cdf', 'P(delay <= %.4g) = %.4f on the lattice, Gaussian(%r,%r) gives %.2f' % (
                    xq, emp, mean, std, q), dict(cfg=dict(route='samplers'), mean=mean, std=std, q=q))
        c.nontrivial(('gaussian', mean, std))
    M = 24
    lat3 = [(i + 0.5) / M for i in range(M)]
    for k, theta in ((1.0, 0.5), (2.5, 0.15), (4.0, 1.0)):
        m = Model(species=['A'], reactions=[(['A'], [], 'massaction', {'k': 1.0}, 'gamma', [], ['A'], {'k': k, 'theta': theta})],
                  initial_condition_dict={'A': 1})
        dobj = m.get_delays()[0]
        params = m.get_parameter_values()
        acc = []
        for u in lat3:
            for v in lat3:
                for U in lat3:
                    tail = [RS.bm_pair(0.3)[0], RS.bm_pair(0.3)[1], 0.01]
                    script = [u, v, U] + tail * 3
                    exp, used = RS.gamma_from(iter(script), k, theta)
                    with Stream(script) as st:
                        g = dobj.py_get_delay(np.array([1.0]), params)
                    c.count('evaluations'); c.count('transitions')
                    if abs(g - exp) > 1e-9 * (1 + abs(exp)) or st.consumed != used or st.overrun:
                        c.violation('C10/samplers/GammaDelay/pointwise', 'GammaDelay(k=%r, theta=%r) on (%r,%r,%r) = %r using %d draws, '
                                    'reference %r using %d' % (k, theta, u, v, U, g, st.consumed, exp, used),
                                    dict(cfg=dict(route='samplers'), u=u, v=v, U=U, k=k, theta=theta))
                    if st.consumed == 3:
                        acc.append(g)
        acc = np.array(acc)
        for q in qs:
            xq = stats.gamma.ppf(q, k, scale=theta)
            emp = float(np.mean(acc <= xq))
            if abs(emp - q) > 2.0 / M:
                c.violation('C10/samplers/GammaDelay/cdf', 'P(delay <= %.4g) = %.4f over first-try acceptances, Gamma(k=%r, scale=%r) gives %.2f' % (
                    xq, emp, k, theta, q), dict(cfg=dict(route='samplers'), k=k, theta=theta, q=q))
        c.nontrivial(('gamma', k, theta))
    c.count('states', 6)


def run(ctx):
    cfgs = configs(ctx.tier)
    ctx.bounds = dict(configs=len(cfgs), cost_bound=max(c['bound'] for c in cfgs), grids=TIMES,
                      delays=delay_variants(ctx.tier))
    ctx.rule = ('E1: networks with delayed products / delayed reactants / both / two delayed channels x delay family and parameter '
                'alphabet (fixed from 0 and 0.01 dt to beyond the horizon, Gaussian with negative draws, Gamma) x grids x plain/safe; '
                'the reference delay simulator\'s choice tree (waiting time vs next grid time vs next queue slot, reaction bucket, '
                'Box-Muller / Marsaglia-Tsang variates realising negative, sub-step, lower/upper part of a slot, on-slot and '
                'beyond-horizon delays) is explored to the cost bound and every trace replayed on DelaySSASimulator (directly and '
                'through py_simulate_model(delay=True)), comparing rows, draws and the drained final queue; the same through py_simulate_model(delay=True, volume=2.0) on DelayVolumeSSASimulator; and on models to which the delayed reaction was added after a first initialisation and simulation; SSASimulator and '
                'VolumeSSASimulator are replayed against references that apply both parts at the firing time; plus the delay '
                'samplers on a full lattice of uniforms. The time grid is also handed over as a strided view whose gaps hold the midpoints and as a table column next to shifted times (simulator objects and entry point); the conformance oracle is unchanged. states = distinct (state, grid index, queue content) of the reference; '
                'non-trivial = configuration with more than one distinct outcome.')
    ctx.assumptions = ['direct-method mapping as in C05; Box-Muller and Marsaglia-Tsang as the sampling algorithms',
                       'exactly representable grid steps; delays never exactly half-way between slots']
    pmap(run_config, cfgs, ctx, nshards=len(cfgs))


def replay(ctx, case):
    cfg = case['cfg']
    if cfg.get('route') == 'samplers':
        return samplers(ctx)
    c = ctx
    # re-run the whole configuration restricted to the recorded script
    sp = cfg['spec']
    times = TIMES[cfg['grid']]
    qdt = times[1] - times[0]
    impl = e1.Impl(sp, cfg['safe'])
    if cfg['route'] == 'ssa':
        got = impl.run_ssa(case['us'], times, dt=qdt)
    elif cfg['route'] == 'volume':
        got = e1.run_volume(impl, case['us'], times, qdt, dict(type='const', V=2.0))
    else:
        got = e1.run_delay(impl, case['us'], times, qdt, len(times), dt=qdt)
    bad = e1.compare(dict(us=case['us'], rows=case['ref_rows']), got)
    if bad:
        ctx.violation('C10/replay/' + bad[0], bad[1], case)
