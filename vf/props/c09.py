"""C09 - rules hold on every reported row and fire on their schedule (E1 + E2)."""
import itertools
import numpy as np
from ..core import pmap
from .. import explore as EXP
from .. import e1
from ..nets import spec, ma, gen
from ..ref import ssa as RS, rules as RR, expr as EX
from ..util import Stream
from ..modelspec import to_model

A, B, C, X, Y = 'A', 'B', 'C', 'X', 'Y'
ID = lambda s: ('id', s)
NUM = lambda v: ('num', v)
TIMES = {'u5': [0.0, 0.25, 0.5, 0.75, 1.0], 'u4h': [0.0, 0.5, 1.0, 1.5]}
LATTICE = [0.02, 0.3, 0.6, 0.97]
MODES = ['det', 'ssa', 'safe', 'volume', 'delay', 'delayvol', 'lineage']


def rule_models(tier):
    """(name, spec, oracle tags).  Species A,B react; X,Y,C are rule targets; parameters p, q."""
    rx_sets = {
        'norx': [],
        'rx1': [ma([A], [B], 1.5), ma([B], [A], 0.5)],
        'rx_exhaust': [ma([A], [B], 2.0)],                                                # irreversible: the reactions run out mid-run
        'rx_rule_rate': [gen([A], [B], ('*', ID('p'), ID(A))), ma([B], [A], 0.5)],      # rate reads a rule-assigned parameter
        'rx_rule_species': [gen([A], [B], ('*', ('num', 0.4), ('*', ID(X), ID(A)))), ma([B], [A], 0.5)],  # rate reads a rule-assigned species
        # the product arrives later, from the delay queue, typically in an interval in which no reaction fires (the immediate
        # part runs out): the rules must hold on the row after the arrival as well.  Delay-aware modes only.
        'rx_delayed': [dict(ma([A], [], 2.0), delay=dict(type='fixed', delay=0.3, reactants=[], products=[B]))],
        'rx_delayed_slow': [dict(ma([A], [], 0.7), delay=dict(type='fixed', delay=0.55, reactants=[], products=[B, B])), ma([B], [], 0.1)],
    }
    delayed_sets = ('rx_delayed', 'rx_delayed_slow')
    out = []
    base_x0 = {A: 2, B: 0, X: 0, Y: 0, C: 0}

    def mk(name, rx, rules, params, tags, x0=None):
        out.append((name, spec(name, [A, B, X, Y, C], dict(x0 or base_x0), rx_sets[rx], params=params, rules=rules), tags))
    for rx in rx_sets:
        # (a)/(b): chained repeated assignments, in dependency order
        mk('chain_rep_%s' % rx, rx,
           [dict(type='assignment', target='p', rhs=('+', NUM(0.5), ('*', NUM(0.5), ID(B))), freq='repeated'),
            dict(type='assignment', target=X, rhs=('+', ID('p'), ID(A)), freq='repeated'),
            dict(type='additive', target=Y, sources=[X, B], freq='repeated')],
           {'p': 1.0, 'q': 2.0}, ['fixed_point'])
        # (d): counter B' = B'+1 every dt, mirrored by a repeated assignment
        mk('counter_%s' % rx, rx,
           [dict(type='assignment', target='p', rhs=('+', NUM(0.5), ('*', NUM(0.5), ID(B))), freq='repeated'),
            dict(type='assignment', target=X, rhs=('+', ID(X), NUM(1)), freq='dt'),
            dict(type='assignment', target=Y, rhs=ID(X), freq='repeated')],
           {'p': 1.0}, ['counter'], x0=dict(base_x0, X=1))
        # (e): ODE rule with a constant rate
        mk('ode_%s' % rx, rx,
           [dict(type='assignment', target='p', rhs=('+', NUM(0.5), ('*', NUM(0.5), ID(B))), freq='repeated'),
            dict(type='ode', target=C, rhs=ID('q'))],
           {'p': 1.0, 'q': 2.0}, ['ode'], x0=dict(base_x0, X=1))
        # a repeated rule (default frequency, spelled by omission) listed AFTER a dt rule / a scheduled rule keeps its own frequency
        mk('repeated_after_dt_%s' % rx, rx,
           [dict(type='assignment', target=X, rhs=('+', ID(X), NUM(1)), freq='dt'),
            dict(type='assignment', target=Y, rhs=('+', ID(A), ('*', NUM(2), ID(B))), freq='repeated')],
           {'p': 1.0}, ['fixed_point'], x0=dict(base_x0, X=1))
        mk('repeated_after_sched_%s' % rx, rx,
           [dict(type='assignment', target=X, rhs=('+', ('*', NUM(2), ID(A)), NUM(3)), freq=0.5),
            dict(type='assignment', target=Y, rhs=('+', ID(A), ('*', NUM(2), ID(B))), freq='repeated')],
           {'p': 1.0}, ['fixed_point'], x0=dict(base_x0, X=1))
        # a rule that fires once (at the start / at a grid time) declared BEFORE a repeated and a dt rule that read its target: declaration
        # order decides, whatever the frequencies
        for tau in ('start', 0.5):
            mk('dependent_after_sched_%s_%s' % (tau, rx), rx,
               [dict(type='assignment', target=X, rhs=('+', ('*', NUM(2), ID(A)), NUM(3)), freq=tau),
                dict(type='assignment', target=Y, rhs=('+', ID(X), ('*', NUM(2), ID(B))), freq='repeated')],
               {'p': 1.0}, ['fixed_point'], x0=dict(base_x0, X=1, Y=1))
        if rx in delayed_sets:
            continue
        # rules that read the cell volume: a parameter target and a species target (volume reads 1 where no volume is in play)
        if rx in ('rx1', 'rx_rule_rate', 'rx_exhaust'):
            mk('volume_rules_%s' % rx, rx,
               [dict(type='assignment', target='p', rhs=('+', ('*', NUM(0.5), ('vol',)), ('*', NUM(0.25), ID(B))), freq='repeated'),
                dict(type='assignment', target=X, rhs=('+', ('*', NUM(4), ID('p')), ID(A)), freq='repeated'),
                dict(type='assignment', target=Y, rhs=('+', ('*', NUM(2), ('vol',)), ID(X)), freq='repeated')],
               {'p': 1.0, 'q': 2.0}, ['volume'])
        # rules that read the time explicitly (also run on a grid that does not start at 0, deterministic mode)
        if rx in ('norx', 'rx1'):
            mk('time_rules_%s' % rx, rx,
               [dict(type='assignment', target='p', rhs=('+', NUM(0.5), ('*', NUM(0.5), ('t',))), freq='repeated'),
                dict(type='assignment', target=X, rhs=('+', ('*', NUM(2), ('t',)), ID(A)), freq='repeated'),
                dict(type='assignment', target=Y, rhs=('+', ('*', NUM(4), ID('p')), ID(X)), freq='repeated')],
               {'p': 1.0, 'q': 2.0}, ['fixed_point', 'time'])
        # (c): scheduled rules at every interior grid time and at the start
        for tau in (['start', 0.25, 0.5, 0.75] if tier == 'thorough' or rx in ('rx1', 'rx_rule_species') else ['start', 0.5]):
            mk('sched_%s_%s' % (tau, rx), rx,
               [dict(type='assignment', target='p', rhs=('+', NUM(0.5), ('*', NUM(0.5), ID(B))), freq='repeated'),
                dict(type='assignment', target=X, rhs=('+', ('*', NUM(2), ID(A)), NUM(3)), freq=tau)],
               {'p': 1.0}, ['scheduled:%s' % tau], x0=dict(base_x0, X=1))
    return out


def strip_rule(sp, idx):
    s2 = dict(sp)
    s2['rules'] = [r for i, r in enumerate(sp['rules']) if i != idx]
    return s2


def fixed_point_violation(sp, rows, times):
    """(a): applying the repeated rules, in order, to a reported row leaves it unchanged"""
    reps = [r for r in sp['rules'] if r['type'] != 'ode' and r.get('freq', 'repeated') in ('repeated', 'repeat')]
    for t, row in zip(times, rows):
        x = dict(zip(sp['species'], row))
        P = dict(sp['params'])
        x2 = dict(x)
        RR.apply(reps, x2, P, t, 0.25, False)
        for s in sp['species']:
            if abs(x2[s] - x[s]) > 1e-9 * (1 + abs(x[s])):
                return 'row at t=%s: %s=%r but the repeated rules give %r (row %s)' % (t, s, x[s], x2[s], row)
    return None


def step_violation(sp, rows, tags, dt):
    i = {s: k for k, s in enumerate(sp['species'])}
    if 'counter' in tags:
        ys = [r[i[Y]] for r in rows]
        d = [b - a for a, b in zip(ys[1:], ys[2:])]
        if any(abs(v - 1.0) > 1e-9 for v in d):
            return 'dt-counter', 'a rule with frequency dt must advance once per step: mirrored counter rows %s' % ys
    if 'ode' in tags:
        cs = [r[i[C]] for r in rows]
        q = sp['params']['q']
        d = [b - a for a, b in zip(cs[1:], cs[2:])]
        if any(abs(v - q * dt) > 1e-9 for v in d):
            return 'ode-step', 'ODE rule target must advance by rate*dt=%r per step: rows %s' % (q * dt, cs)
    return None


def run_impl(mode, impl, us, times, dt, lineage=None):
    if mode in ('ssa', 'safe'):
        return impl.run_ssa(us, times, dt=dt)
    if mode == 'volume':
        return e1.run_volume(impl, us, times, dt, dict(type='const', V=2.0))
    if mode == 'delay':
        return e1.run_delay(impl, us, times, dt, len(times), dt=dt)
    if mode == 'delayvol':
        # delay and volume together: only reachable through the entry point (DelayVolumeSSASimulator)
        from bioscrape.simulator import py_simulate_model
        with Stream(us) as st:
            res = py_simulate_model(np.array(times), Model=impl.model, stochastic=True, delay=True, volume=2.0, return_dataframe=False)
        return dict(rows=impl.rows(res.py_get_result()), consumed=st.consumed, overrun=st.overrun)
    raise ValueError(mode)


class ModelChanged(Exception):
    pass


def run_lineage(sp, us, times, dt):
    from bioscrape.lineage import LineageModel, LineageCSimInterface, LineageSSASimulator, LineageVolumeCellState
    m = to_model(sp, cls=LineageModel)
    iface = LineageCSimInterface(m)
    iface.py_set_dt(dt)
    iface.py_set_initial_time(times[0])
    order = m.get_species_list()
    perm = [order.index(s) for s in sp['species']]
    before = np.array(m.get_species_array(), dtype=float)
    if len(us) % 2:
        v = LineageVolumeCellState(v0=1.0, t0=0.0, state=before.copy())
    else:
        v = LineageVolumeCellState(v0=1.0, t0=0.0)      # no state given: the cell starts from the Model's initial condition
    with Stream(us) as st:
        res = LineageSSASimulator().py_SimulateSingleCell(np.array(times, dtype=float), Model=m, interface=iface, v=v)
    after = np.array(m.get_species_array(), dtype=float)
    if not np.array_equal(before, after):
        raise ModelChanged('a single-cell run changed the Model\'s initial condition from %s to %s' % (before.tolist(), after.tolist()))
    arr = res.py_get_result()
    return dict(rows=[[float(r[k]) for k in perm] for r in arr], consumed=st.consumed, overrun=st.overrun,
                times=[float(t) for t in res.py_get_timepoints()], dead=res.py_get_dead(), divided=res.py_get_divided())


def run_config(c, cfg):
    name, sp, tags, mode, grid = cfg['name'], cfg['spec'], cfg['tags'], cfg['mode'], cfg['grid']
    times = TIMES[grid]
    dt = times[1] - times[0]
    pre = 'C09/%s%s/%s/' % (mode, '-reinit' if cfg.get('reinit') else '', name.split('_')[0] if not name.startswith('sched') else 'scheduled')
    c.count('states')

    def case(us=None, rows=None, extra=None):
        d = dict(cfg=cfg, us=us, rows=rows)
        d.update(extra or {})
        return d
    if mode == 'det':
        from bioscrape.simulator import py_simulate_model
        m = to_model(sp)
        res = py_simulate_model(np.array(times), Model=m, stochastic=False, return_dataframe=False)
        order = m.get_species_list()
        rows = [[float(r[order.index(s)]) for s in sp['species']] for r in res.py_get_result()]
        c.count('evaluations'); c.count('traces'); c.count('transitions', len(rows))
        bad = fixed_point_violation(sp, rows, times)
        if bad and 'fixed_point' in tags:
            c.violation(pre + 'fixed-point', bad, case(rows=rows))
        if 'time' in tags:
            # the same model on a grid that starts later (the first time point is where the initial condition applies), and on grids
            # given in other representations: a strided view, an integer array
            fine = np.linspace(0.0, 2.0, 17)
            variants = [('offset-grid', np.array([0.5 + t_ for t_ in times])), ('strided-grid', fine[::4]), ('integer-grid', np.arange(0, 5))]
            for vname, tv in variants:
                res2 = py_simulate_model(tv, Model=to_model(sp), stochastic=False, return_dataframe=False)
                rows2 = [[float(r[order.index(s)]) for s in sp['species']] for r in res2.py_get_result()]
                c.count('evaluations'); c.count('traces'); c.count('transitions', len(rows2))
                bad = fixed_point_violation(sp, rows2, [float(t_) for t_ in tv])
                if bad:
                    c.violation(pre + 'fixed-point-' + vname, bad, case(rows=rows2, extra=dict(times=[float(t_) for t_ in tv])))
        if 'fixed_point' in tags and sp.get('params'):
            # a second, independent model of the same definition with its parameters declared in the reverse order
            sp_r = dict(sp, params=dict(reversed(list(sp['params'].items()))))
            m_r = to_model(sp_r)
            res3 = py_simulate_model(np.array(times), Model=m_r, stochastic=False, return_dataframe=False)
            o_r = m_r.get_species_list()
            rows3 = [[float(r[o_r.index(s)]) for s in sp['species']] for r in res3.py_get_result()]
            c.count('evaluations'); c.count('traces'); c.count('transitions', len(rows3))
            bad = fixed_point_violation(sp, rows3, times)
            if bad:
                c.violation(pre + 'fixed-point-parameters-declared-in-reverse', bad, case(rows=rows3))
        c.nontrivial((name, mode, grid))
        return
    if mode == 'lineage':
        # no reference for the lineage loop here (C19 has it): mapping-independent oracles on raw lattice scripts
        depth = cfg['depth']
        for script in itertools.product(LATTICE, repeat=depth):
            try:
                got = run_lineage(sp, list(script), times, dt)
            except ModelChanged as e:
                c.violation(pre + 'model-changed', str(e), case(list(script), None))
                break
            c.count('evaluations'); c.count('traces'); c.count('transitions', depth)
            rows = got['rows']
            if got['dead'] >= 0 or len(rows) != len(times):
                c.violation(pre + 'truncated', 'single cell without death/division rules ended early: dead=%s, %d of %d rows' % (
                    got['dead'], len(rows), len(times)), case(list(script), rows))
                continue
            bad = fixed_point_violation(sp, rows, times) if 'fixed_point' in tags or 'counter' in tags else None
            if bad:
                c.violation(pre + 'fixed-point', bad, case(list(script), rows))
            sv = step_violation(sp, rows, tags, dt)
            if sv:
                c.violation(pre + sv[0], sv[1], case(list(script), rows))
        # reference-led exploration with the lineage single-cell reference (vf/ref/lineage_ssa.py): conformance of every row
        from ..ref import lineage_ssa as LS
        lnet = RS.Net(sp, 'stochvol', False)
        cell0 = dict(state={s_: float(sp['x0'][s_]) for s_ in sp['species']}, V=1.0, V0=1.0, t=0.0, t0=0.0)

        def on_lin(choices, menus, ref):
            try:
                got = run_lineage(sp, ref['us'], times, dt)
            except ModelChanged as e:
                c.violation(pre + 'model-changed', str(e), case(ref['us'], None))
                return
            c.count('evaluations'); c.count('traces'); c.count('transitions', len(choices))
            cs = case(ref['us'], got['rows'], dict(ref_rows=ref['rows'], letters=[m_.letters[ch].name for m_, ch in zip(menus, choices)]))
            if got['consumed'] != len(ref['us']) or got['overrun']:
                c.violation(pre + 'conformance-draws', 'implementation consumed %d(+%d) uniforms, reference %d' % (got['consumed'], got['overrun'], len(ref['us'])), cs)
            elif not e1.rows_equal(ref['rows'], got['rows'], 1e-9):
                c.violation(pre + 'conformance-rows', 'rows differ: reference %s implementation %s' % (ref['rows'], got['rows']), cs)
            sv2 = step_violation(sp, got['rows'], tags, dt) if len(got['rows']) == len(times) else None
            if sv2:
                c.violation(pre + sv2[0], sv2[1], cs)
        EXP.explore(lambda: LS.single_cell(lnet, times, dict(cell0), dt), cfg['bound'], on_lin)
        c.nontrivial((name, mode, grid))
        return
    safe = mode == 'safe'

    def reinit(model):
        # the model was already initialised once, then extended: the next interface initialises it again
        model.py_initialize()
        model.create_parameter('unused_extra', 1.0)
    impl = e1.Impl(sp, safe, prepare=reinit if cfg.get('reinit') else None)
    net = RS.Net(sp, 'stochvol' if mode in ('volume', 'delayvol') else 'stoch', safe)
    sched = [t for t in tags if t.startswith('scheduled:')]
    impl_wo = None
    if sched:
        impl_wo = e1.Impl(strip_rule(sp, 1), safe)
    outcomes = set()

    def factory():
        if mode in ('ssa', 'safe'):
            return RS.ssa(net, times, dt=dt)
        if mode == 'volume':
            return RS.volume_ssa(net, times, dt, dict(type='const', V=2.0))
        if mode == 'delayvol':
            return RS.delay_volume_ssa(net, times, dt, dt, len(times), dict(type='const', V=2.0))
        return RS.delay_ssa(net, times, dt, len(times), dt=dt)

    def on_trace(choices, menus, ref):
        got = run_impl(mode, impl, ref['us'], times, dt)
        c.count('evaluations'); c.count('traces'); c.count('transitions', len(choices))
        rows = got['rows']
        letters = [m.letters[ch].name for m, ch in zip(menus, choices)]
        cs = case(ref['us'], rows, dict(ref_rows=ref['rows'], letters=letters))
        # mapping-independent oracles first
        bad = fixed_point_violation(sp, rows, times) if 'volume' not in tags else None      # (the re-application assumes volume 1)
        if bad:
            c.violation(pre + 'fixed-point', bad, cs)
        sv = step_violation(sp, rows, tags, dt)
        if sv:
            c.violation(pre + sv[0], sv[1], cs)
        if sched:
            tau = sched[0].split(':')[1]
            tau_v = 0.0 if tau == 'start' else float(tau)
            wo = run_impl(mode, impl_wo, ref['us'], times, dt)
            keep = [k for k, t in enumerate(times) if (t < tau_v or (t == tau_v and tau != 'start'))]
            if any(rows[k] != wo['rows'][k] for k in keep if k < len(rows) and k < len(wo['rows'])):
                c.violation(pre + 'scheduled-early', 'rule scheduled at %s changed an earlier row: with %s without %s' % (
                    tau, rows, wo['rows']), cs)
            i = {s: k for k, s in enumerate(sp['species'])}
            for k, t in enumerate(times):
                if k < len(rows) and (t > tau_v or (tau == 'start' and t == 0.0)):
                    # the rule X = 2A+3 was applied at tau and nothing else writes X: it holds the value computed from the row
                    # at which it fired; at least it must no longer be the initial value
                    if rows[k][i[X]] == 1.0:
                        c.violation(pre + 'scheduled-late', 'rule scheduled at %s has not fired by t=%s: rows %s' % (tau, t, rows), cs)
                        break
        bad = e1.compare(ref, got, tol=1e-9)
        if bad:
            c.violation(pre + 'conformance-' + bad[0], bad[1], cs)
        outcomes.add(tuple(map(tuple, ref['rows'])))
        if len(c.samples) < 1 and len(ref['us']) > 3:
            c.sample(dict(model=name, mode=mode, rules=sp['rules'], letters=letters, rows=ref['rows']))
    EXP.explore(factory, cfg['bound'], on_trace)
    c.nontrivial((name, mode, grid, bool(cfg.get('reinit'))))


def run(ctx):
    cfgs = []
    for name, sp, tags in rule_models(ctx.tier):
        for mode in MODES:
            if 'time' in tags and mode != 'det':
                continue        # the claim about stochastic rows is limited to rules over species and parameters
            if '_rx_delayed' in name and mode not in ('delay', 'delayvol'):
                continue
            for grid in (['u5'] if ctx.quick else ['u5', 'u4h']):
                if mode == 'det' and grid != 'u5':
                    continue
                if grid == 'u4h' and any(t.startswith('scheduled:0.25') or t.startswith('scheduled:0.75') for t in tags):
                    continue
                cfgs.append(dict(name=name, spec=sp, tags=tags, mode=mode, grid=grid, bound=2 if ctx.quick else 3,
                                 depth=4 if ctx.quick else 6))
                if mode in ('ssa', 'safe', 'volume', 'delay', 'delayvol') and grid == 'u5' and ('counter' in tags or 'ode' in tags):
                    # the same on a model that was initialised, extended and initialised again
                    cfgs.append(dict(name=name, spec=sp, tags=tags, mode=mode, grid=grid, bound=2, depth=4, reinit=True))
    ctx.bounds = dict(configs=len(cfgs), cost_bound=cfgs[0]['bound'], lineage_lattice_depth=cfgs[0]['depth'], grids=TIMES)
    ctx.rule = ('E1+E2: rule sets chained in dependency order (repeated assignment to a parameter -> assignment to a species -> additive; '
                'dt counter mirrored by a repeated assignment; ODE rule; rule scheduled at start and at every interior grid time) on models '
                'without reactions, with reactions, and whose rate reads a rule-assigned parameter or species; modes deterministic, SSA, delay+volume (through the entry point), '
                'safe, volume, delay (reference-led exploration of the scripted stream to the cost bound, every trace replayed) and lineage '
                'single cell (every raw script over {0.02,0.3,0.6,0.97}^depth, plus the reference-led tree of the lineage single-cell reference with conformance of every row). Oracles on the real rows: fixed point of the repeated rules; '
                'counter advances by exactly 1 and ODE target by rate*dt between consecutive rows from the second on; a scheduled rule leaves '
                'rows up to its time identical to the same script without the rule and has fired afterwards; plus conformance with the '
                'reference simulator whose propensities are computed after the rules. Two reaction contexts deliver their product from the delay queue in a quiet interval (delay modes); a rule that fires once is declared before the repeated rule that reads its target (all modes). states = (model, mode, grid) configurations.')
    ctx.assumptions = ['direct-method mapping as in C05', 'scheduled times are exact grid elements; dt = grid step (exact binary fraction)',
                       'deterministic mode: fixed-point oracle only, as the property states']
    pmap(run_config, cfgs, ctx, nshards=len(cfgs))


def replay(ctx, case):
    c2 = type(ctx).__mro__[1]()
    run_config(c2, case['cfg'])
    for k, v in c2.violations.items():
        ctx.violation(k, v['msg'], v['case'])
