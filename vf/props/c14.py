"""C14 - exported kinetic laws equal the model's own rate laws (engine E2)."""
import os, tempfile, math, itertools
import numpy as np
import libsbml as L
from ..core import pmap
from ..modelspec import to_model, state_vector
from ..ref import sbml_eval as SE
from .. import sbmlfam as FAM

STATES_DET = [dict(A=2.0, B=3.0, C=1.5), dict(A=0.5, B=1.0, C=4.0), dict(A=5.0, B=0.25, C=2.0), dict(A=1.0, B=1.0, C=1.0),
              dict(A=3.5, B=6.0, C=0.5), dict(A=7.0, B=2.0, C=3.0), dict(A=0.0, B=2.0, C=1.0), dict(A=2.0, B=0.0, C=0.0)]
STATES_INT = [dict(A=2, B=3, C=1), dict(A=0, B=1, C=4), dict(A=5, B=0, C=2), dict(A=1, B=1, C=1), dict(A=3, B=6, C=0), dict(A=7, B=2, C=3),
              dict(A=4, B=4, C=4), dict(A=1, B=0, C=2)]


def write_model(m, stochastic):
    fd, path = tempfile.mkstemp(suffix='.xml', prefix='c14_', dir='/dev/shm' if os.path.isdir('/dev/shm') else None)
    os.close(fd)
    # the same model is first written in the OTHER form (nothing of that export may reach the one that is judged), and the flag is
    # given as a numpy boolean as often as a Python one
    np.random.seed(20260927)       # every document of the run carries the same generated model id
    m.write_sbml_model(path, stochastic_model=(not stochastic))
    flag = np.bool_(stochastic) if (len(m.get_species_list()) + len(m.get_parameter_dictionary())) % 2 else bool(stochastic)
    np.random.seed(20260927)
    m.write_sbml_model(path, stochastic_model=flag)
    return path


def check(c, item):
    import warnings
    sp, stochastic = item
    c.count('states')
    kind = sp['name'].split('/')[0]
    sub = sp['name'].split('/')[1] if '/' in sp['name'] else ''
    key = 'C14/%s/%s/' % (kind, 'stochastic' if stochastic else 'deterministic')
    if kind == 'general':
        key = 'C14/general/%s/' % sub
    case = dict(spec=sp, stochastic=stochastic)
    with warnings.catch_warnings():
        warnings.simplefilter('ignore')
        m = to_model(sp) if not sp.get('after_failed_create') else failed_create_model(sp)
        try:
            path = write_model(m, stochastic)
        except Exception as e:
            c.violation(key + 'write-exception', 'writing the model raised %r' % e, case)
            return
    try:
        doc = L.readSBMLFromFile(path)
        model = doc.getModel()
        if model is None or doc.getNumErrors(L.LIBSBML_SEV_ERROR) > 0:
            c.violation(key + 'invalid-document', 'libsbml reports errors reading the written file: %s' % doc.getErrorLog().toString()[:300], case)
            return
        species_ids = {s.getId() for s in model.getListOfSpecies()}
        gparams = {p.getId(): (p.getValue() if p.isSetValue() else float('nan')) for p in model.getListOfParameters()}
        if sp.get('after_failed_create') and model.getNumReactions() != len(sp['reactions']):
            c.violation(key + 'reaction-count', 'the document has %d reactions, the model %d (a create_reaction call that raised left something behind)' % (
                model.getNumReactions(), len(sp['reactions'])), case)
            return
        props = m.get_propensities()
        pvals = m.get_parameter_values()
        names = sp['species']
        for ri, rx in enumerate(sp['reactions']):
            r = model.getReaction(ri)
            kl = r.getKineticLaw()
            ast = kl.getMath()
            locals_ = {p.getId(): p.getValue() for p in kl.getListOfLocalParameters()}
            c.count('evaluations'); c.count('transitions')
            # stoichiometry attributes
            for side, getter, lst in (('reactant', r.getListOfReactants(), rx.get('reactants', [])), ('product', r.getListOfProducts(), rx.get('products', []))):
                got = {}
                for srf in getter:
                    got[srf.getSpecies()] = got.get(srf.getSpecies(), 0) + srf.getStoichiometry()
                want = {s: float(lst.count(s)) for s in set(lst)}
                if got != want:
                    c.violation(key + 'stoichiometry', '%s stoichiometry in the document %s, multiplicities in the model %s' % (side, got, want), case)
            undefined = [(k_, n) for k_, n in SE.names(ast) if k_ == 'function' or (n not in species_ids and n not in gparams and n not in locals_)]
            if undefined:
                c.violation(key + 'undefined-identifier:' + ','.join(sorted(set(n for _, n in undefined))), 'kinetic law %s refers to %s, which the document does not define' % (
                    L.formulaToL3String(ast), sorted(set(n for _, n in undefined))), case)
                continue
            states = STATES_INT if stochastic else STATES_DET
            if not set(names) <= {'A', 'B', 'C'}:
                # models over other species: the same value pool, dealt out by position
                pool = [v for x_ in states for v in x_.values()]
                states = [{s_: pool[(i_ * 5 + j_ * 3 + 1) % len(pool)] for j_, s_ in enumerate(names)} for i_ in range(len(states))]
            nontrivial = False
            for x in states:
                env = dict(gparams); env.update(locals_); env.update({s: float(x.get(s, 0.0)) for s in species_ids})
                xv = state_vector(m, {s: x.get(s, 0.0) for s in names})
                try:
                    if stochastic:
                        want = props[ri].py_verif_get_stochastic_propensity(xv, pvals, 0.0)
                    else:
                        want = props[ri].py_get_propensity(xv, pvals, 0.0)
                    got = SE.ev(ast, env, 0.0)
                except (ZeroDivisionError, ValueError, OverflowError, SE.Unsupported) as e:
                    if isinstance(e, SE.Unsupported):
                        c.violation(key + 'unsupported-math', 'kinetic law uses mathematics outside plain SBML: %s' % e, case)
                        break
                    continue
                c.count('evaluations'); c.count('transitions')
                if math.isfinite(want) and not math.isfinite(got):
                    c.violation(key + 'value-not-finite', 'kinetic law %s evaluates to %r at %s (a parameter without a value in the document?), the model\'s rate is %r' % (
                        L.formulaToL3String(ast), got, x, want), dict(case, x=x))
                    break
                if not (math.isfinite(want) and math.isfinite(got)):
                    continue
                if want != 0:
                    nontrivial = True
                if abs(got - want) > 1e-10 * max(abs(want), abs(got)):      # relative: rates of magnitude 1e-13 are rates too
                    form = ''
                    if kind in ('hillnegative', 'proportionalhillnegative', 'hillpositive', 'proportionalhillpositive'):
                        # the written Hill laws have the shape k [d] [s^n] / (s^n + K): K where K^n belongs
                        from ..ref import crn
                        P = dict(sp['params'])
                        v = lambda q: float(P[q]) if isinstance(q, str) else float(q)
                        s_ = float(x[rx['s1']]); kk, KK, nn = v(rx['k']), v(rx['K']), v(rx['n'])
                        known = kk / (s_ ** nn + KK) * (float(x[rx['d']]) if rx.get('d') else 1.0) * (s_ ** nn if 'positive' in kind else 1.0)
                        if abs(got - known) <= 1e-9 * (1 + abs(known)):
                            form = ':K-in-place-of-K^n'
                    c.violation(key + 'value' + form, 'kinetic law %s evaluates to %r at %s, the model\'s rate is %r' % (
                        L.formulaToL3String(ast), got, x, want), dict(case, x=x))
                    break
            if nontrivial:
                c.nontrivial(repr((sp['reactions'], stochastic)))
        if len(c.samples) < 2 and kind == 'massaction':
            c.sample(dict(model=sp['name'], reaction=sp['reactions'][0], stochastic=stochastic,
                          kinetic_law=L.formulaToL3String(model.getReaction(0).getKineticLaw().getMath())))
    finally:
        os.remove(path)


def failed_create_model(sp):
    """the same reactions, but between the first and the second a create_reaction call with an unsupported rate raises (and is caught)"""
    from ..modelspec import reaction_tuple
    m = to_model(dict(sp, reactions=sp['reactions'][:1]))
    try:
        m.create_reaction(['A'], ['B'], 'general', {'rate': 'kf*C*sin(A)'})
    except Exception:
        pass
    for r in sp['reactions'][1:]:
        m.create_reaction(*reaction_tuple(r))
    m.py_initialize()
    return m


def specs(tier):
    from ..nets import spec, ma, gen
    out = FAM.single_reaction_specs(tier)
    x0 = {'A': 2.0, 'B': 3.0, 'C': 1.5}
    out = [s for s in out if 'delay' not in s['name']]
    # constants that are exactly zero (named and numeric), alone and inside a general rate
    P0 = dict(FAM.PARAMS, kz=0.0)
    out.append(spec('massaction/zero-named', FAM.SP, x0, [ma(['A', 'B'], ['C'], 'kz'), ma(['C'], ['A'], 'kf')], P0))
    out.append(spec('massaction/zero-numeric', FAM.SP, x0, [ma(['A'], ['C'], 0.0), ma(['C'], ['A'], 1.2)], P0))
    out.append(spec('general/g_zero_constant', FAM.SP, x0, [gen(['A'], ['B'], ('/', ('*', ('id', 'kf'), ('id', 'A')), ('+', ('num', 1), ('*', ('id', 'kz'), ('id', 'B')))))], P0))
    # an export after a create_reaction call that raised
    s2 = spec('massaction/after-failed-create', FAM.SP, x0, [ma(['A', 'B'], ['C'], 'kf'), ma(['C'], ['A', 'A'], 0.6), ma(['A', 'A'], ['B'], 0.3)], FAM.PARAMS)
    s2['after_failed_create'] = True
    out.append(s2)
    out += FAM.magnitude_specs()
    out += [s_ for s_ in FAM.short_name_specs() if not s_.get('rules')]
    out += FAM.big_specs(tier, delays_ok=False, rules_ok=False, hill_ok=False)    # (the Hill laws are known findings, keyed by family)
    return out


def run(ctx):
    sp = specs(ctx.tier)
    items = [(s, st) for s in sp for st in (False, True)]
    pmap(check, items, ctx, nshards=128)
    ctx.bounds = dict(models=len(sp), exports=len(items), states=8)
    ctx.rule = ('E2: every single-reaction model of the family (each propensity type x numeric/named parameters x reactant and product '
                'sequences (quick: length 0..2, thorough 0..4), 18 general rates covering each operator alone and nested) and rotations of a 13-reaction menu over 8 species (5..13 reactions per model) is written with '
                'the real writer in deterministic and stochastic form; the file is read back with libsbml only: every identifier of every '
                'kinetic law must be defined in the document, the law evaluated as plain SBML mathematics at 8 states (integers for the '
                'stochastic export) must equal the model\'s own rate (stochastic form via hook H2) to 1e-10 (relative), and the stoichiometry attributes '
                'must equal the multiplicities. states = exports; non-trivial = non-zero rate somewhere.')
    ctx.assumptions = ['libsbml\'s reader and vf/ref/sbml_eval.py as the meaning of plain SBML mathematics']


def replay(ctx, case):
    check(ctx, (case['spec'], case['stochastic']))
