"""C18 - reported Jacobians and parameter sensitivities match analytic derivatives (engine E2)."""
import itertools, math
import numpy as np
from ..core import pmap
from ..nets import spec, ma, hill, gen
from ..ref import crn
from ..modelspec import to_model

A, B, C = 'A', 'B', 'C'
ID = lambda s: ('id', s)
NUM = lambda v: ('num', v)
METHODS = {'fourth_order_central_difference': 4, 'central_difference': 2, 'forward_difference': 1, 'backward_difference': 1}
H = 0.01
SVALS = [0.7, 2.0, 5.5]
PVALS = [0.1, 1.0, 3.2]


def networks(pv):
    k, k2, K, n = pv
    P = dict(k=k, k2=k2, K=K, n=n)
    return [
        spec('ma1', [A], {A: 1}, [ma([A], [], 'k')], P),
        spec('ma2', [A, B], {A: 1, B: 1}, [ma([A, B], [A], 'k'), ma([], [B], 'k2')], P),
        spec('ma2rep', [A, B], {A: 1, B: 1}, [ma([A, A], [B], 'k'), ma([B], [A, A], 'k2')], P),
        spec('ma3', [A, B, C], {A: 1, B: 1, C: 1}, [ma([A, B, C], [A], 'k'), ma([C], [B], 'k2')], P),
        spec('ma3rep', [A, B], {A: 1, B: 1}, [ma([A, A, B], [B, B], 'k'), ma([B], [], 'k2')], P),
        spec('ma4rep', [A, B], {A: 1, B: 1}, [ma([A, A, B, B], [A], 'k'), ma([], [B], 'k2')], P),
        spec('ma4rep3', [A, B], {A: 1, B: 1}, [ma([A, A, A, B], [B], 'k'), ma([B], [A], 1.3)], P),
        spec('hillpos', [A, B], {A: 1, B: 1}, [hill('hillpositive', [], [B], 'k', 'K', 'n', A), ma([B], [], 'k2')], P),
        spec('hillneg', [A, B], {A: 1, B: 1}, [hill('hillnegative', [], [A], 'k', 'K', 'n', B), ma([A], [B], 'k2')], P),
        spec('prophillpos', [A, B, C], {A: 1, B: 1, C: 1}, [hill('proportionalhillpositive', [], [C], 'k', 'K', 'n', A, B), ma([C], [], 'k2')], P),
        spec('prophillneg', [A, B, C], {A: 1, B: 1, C: 1}, [hill('proportionalhillnegative', [], [C], 'k', 'K', 'n', B, A), ma([C], [A], 'k2')], P),
        spec('rational', [A, B], {A: 1, B: 1}, [gen([A], [B], ('/', ('*', ID('k'), ID(A)), ('+', ID('K'), ID(B)))), ma([B], [], 'k2')], P),
        spec('exponential', [A, B], {A: 1, B: 1}, [gen([], [B], ('*', ID('k'), ('exp', ('neg', ('*', NUM(0.3), ID(A)))))), ma([B], [A], 'k2')], P),
        # an assignment rule whose target is read by a rate: the rate equations include the rule (chain rule through B = k2*A*A)
        spec('ruled', [A, B, C], {A: 1, B: 1, C: 1}, [gen([], [C], ('/', ('*', ID('k'), ID(B)), ('+', ID('K'), ID(B)))), ma([A], [], 'k2'), ma([C], [A], 0.4)], P,
             [dict(type='assignment', target=B, rhs=('*', ID('k2'), ('*', ID(A), ID(A))), freq='repeated')]),
        # polynomial rates only: well defined on both sides of zero, evaluated at states closer to zero than the stencil width
        spec('poly_near_zero', [A, B], {A: 1, B: 1}, [ma([A, A, B], [B], 'k'), ma([A], [B], 'k2'), gen([], [A], ('+', ID('K'), ('*', ID(A), ID(B))))], P),
    ]


def rhs_fn(sp):
    from ..ref import rules as RR
    S, Sd = crn.stoich(sp)
    species = sp['species']

    def f(x, P):
        xd = dict(zip(species, [float(v) for v in x]))
        if sp.get('rules'):
            Pd = dict(sp['params']); Pd.update(P)
            RR.apply(sp['rules'], xd, Pd, 0.0, 0.01, True)
        r = [crn.rate(sp, rx, xd, 'det', 1.0, 0.0, P) for rx in sp['reactions']]
        return np.array([sum((S[i][j] + Sd[i][j]) * r[j] for j in range(len(r))) for i in range(len(species))])
    return f


def stencil(g, v, method):
    """the documented difference scheme applied to a scalar function g around v"""
    if method == 'fourth_order_central_difference':
        return (-g(v + 2 * H) + 8 * g(v + H) - 8 * g(v - H) + g(v - 2 * H)) / (12 * H)
    if method == 'central_difference':
        return (g(v + H) - g(v - H)) / (2 * H)
    if method == 'forward_difference':
        return (g(v + H) - g(v)) / H
    return (g(v) - g(v - H)) / H


def num_deriv(g, v, order):
    """high-accuracy derivative of order 1..5 of the reference by 9-point Chebyshev-free finite differences on a fine step,
    used for the analytic value (order 1, via Richardson) and for the truncation bound (order p+1, coarse is enough)"""
    if order == 1:
        def cd(h):
            return (-g(v + 2 * h) + 8 * g(v + h) - 8 * g(v - h) + g(v - 2 * h)) / (12 * h)
        a, b = cd(2e-3), cd(1e-3)
        return b + (b - a) / 15.0
    # central differences for higher orders with step 0.01 (only a magnitude is needed)
    h = 0.01
    coef = {2: ([1, -2, 1], 1), 3: ([-0.5, 1, 0, -1, 0.5], 2), 5: ([-0.5, 2, -2.5, 0, 2.5, -2, 0.5], 3)}[order]
    w, r = coef
    return sum(wi * g(v + (i - r) * h) for i, wi in enumerate(w)) / h ** order


def rounding(g, v):
    """what floating-point cancellation can contribute: to the reference derivative (step 1e-3) and to a scheme with step H"""
    gmax = max(abs(g(q)) for q in (v - 2 * H, v - H, v, v + H, v + 2 * H))
    return 1e-9 * gmax


def bound(g, v, p):
    """truncation bound of the order-p scheme: C h^p max|g^(p+1)| over the stencil interval (sampled), with safety factor 3"""
    C = {4: 1.0 / 30, 2: 1.0 / 6, 1: 0.5}[p]
    pts = [v - 2 * H, v - H, v, v + H, v + 2 * H]
    mx = max(abs(num_deriv(g, q, p + 1)) for q in pts)
    return 3.0 * C * H ** p * mx


def check(c, item):
    from bioscrape.analysis import py_get_jacobian, py_get_sensitivity_to_parameter
    sp, state = item
    c.count('states')
    m = to_model(sp)
    order = m.get_species_list()
    x_model = np.array([state[s] for s in order])
    f = rhs_fn(dict(sp, species=order))
    P0 = dict(sp['params'])
    n = len(order)
    before = dict(m.get_parameter_dictionary())
    case = dict(spec=sp, state=state)
    for method, p in METHODS.items():
        J = np.asarray(py_get_jacobian(m, x_model, method=method))
        c.count('evaluations'); c.count('transitions', n * n)
        if J.shape != (n, n):
            c.violation('C18/jacobian/shape', 'Jacobian shape %s for %d species' % (J.shape, n), case)
            continue
        for i in range(n):
            for j in range(n):
                def g(v, i=i, j=j):
                    x = x_model.copy(); x[j] = v
                    return f(x, P0)[i]
                st = stencil(g, x_model[j], method)
                an = num_deriv(g, x_model[j], 1)
                scale = 1.0 + abs(an)
                if abs(J[i, j] - st) > 1e-7 * scale:
                    c.violation('C18/jacobian/%s/stencil' % method, 'd f_%s / d %s = %r, the %s scheme on the rate equations gives %r (analytic %r)' % (
                        order[i], order[j], J[i, j], method, st, an), dict(case, i=i, j=j, method=method))
                elif abs(J[i, j] - an) > bound(g, x_model[j], p) + 1e-6 * scale + rounding(g, x_model[j]):
                    c.violation('C18/jacobian/%s/accuracy' % method, 'd f_%s / d %s = %r, analytic derivative %r, allowed truncation %r' % (
                        order[i], order[j], J[i, j], an, bound(g, x_model[j], p)), dict(case, i=i, j=j, method=method))
        for pname in list(before):
            if pname not in P0:
                # a dummy parameter created for a numeric constant: its sensitivity is the derivative w.r.t. that constant;
                # the reference has no name for it, so only the restore property is checked through it
                Z = py_get_sensitivity_to_parameter(m, x_model, pname, method=method)
                continue
            Z = np.asarray(py_get_sensitivity_to_parameter(m, x_model, pname, method=method))
            c.count('evaluations'); c.count('transitions', n)
            for i in range(n):
                def g(v, i=i):
                    P = dict(P0); P[pname] = v
                    return f(x_model, P)[i]
                st = stencil(g, P0[pname], method)
                an = num_deriv(g, P0[pname], 1)
                scale = 1.0 + abs(an)
                if abs(Z[i] - st) > 1e-7 * scale:
                    c.violation('C18/sensitivity/%s/stencil' % method, 'd f_%s / d %s = %r, the %s scheme gives %r (analytic %r)' % (
                        order[i], pname, Z[i], method, st, an), dict(case, i=i, param=pname, method=method))
                elif abs(Z[i] - an) > bound(g, P0[pname], p) + 1e-6 * scale + rounding(g, P0[pname]):
                    c.violation('C18/sensitivity/%s/accuracy' % method, 'd f_%s / d %s = %r, analytic %r, allowed truncation %r' % (
                        order[i], pname, Z[i], an, bound(g, P0[pname], p)), dict(case, i=i, param=pname, method=method))
            after = dict(m.get_parameter_dictionary())
            if after != before:
                c.violation('C18/parameters-changed', 'parameter values changed by the sensitivity to %s (%s): %s -> %s' % (pname, method, before, after),
                            dict(case, param=pname, method=method))
                m.set_params(before)
    # the same state in other representations (a column of a species-by-condition table, a list, an integer array where the values
    # are whole): the answers are those for the contiguous float array
    table = np.zeros((n, 3)); table[:, 1] = x_model; table[:, 0] = 99.0; table[:, 2] = -5.0
    reprs = [('strided-column', table[:, 1]), ('list', [float(v_) for v_ in x_model])]
    if np.all(x_model == np.round(x_model)):
        reprs.append(('integer-array', x_model.astype(np.int64)))
    for rname, xr in reprs:
        for pname in [p_ for p_ in before if p_ in P0][:2]:
            try:
                Zr = np.asarray(py_get_sensitivity_to_parameter(m, xr, pname, method='central_difference'), dtype=float)
                Zc = np.asarray(py_get_sensitivity_to_parameter(m, x_model.copy(), pname, method='central_difference'), dtype=float)
            except Exception as e:
                c.violation('C18/sensitivity/representation/%s' % rname, 'the state given as a %s made the call raise %r' % (rname, e), dict(case, param=pname))
                break
            c.count('evaluations', 2); c.count('transitions', 2 * n)
            if Zr.shape != Zc.shape or np.any(np.abs(Zr - Zc) > 1e-9 * (1 + np.abs(Zc))):
                c.violation('C18/sensitivity/representation/%s' % rname, 'd f / d %s for the state given as a %s is %s, for the same values as a contiguous float array %s' % (
                    pname, rname, Zr.tolist(), Zc.tolist()), dict(case, param=pname))
                break
        try:
            Jr = np.asarray(py_get_jacobian(m, xr, method='central_difference'), dtype=float)
            Jc = np.asarray(py_get_jacobian(m, x_model.copy(), method='central_difference'), dtype=float)
            if Jr.shape != Jc.shape or np.any(np.abs(Jr - Jc) > 1e-9 * (1 + np.abs(Jc))):
                c.violation('C18/jacobian/representation/%s' % rname, 'the Jacobian for the state given as a %s differs from the one for a contiguous float array' % rname, case)
        except Exception as e:
            c.violation('C18/jacobian/representation/%s' % rname, 'the state given as a %s made the call raise %r' % (rname, e), case)
    # the same Model object, re-parameterised: answers must follow the current values (no stale snapshot)
    P1 = {k_: (v_ * 1.5 + 0.2) for k_, v_ in P0.items()}
    m.set_params(dict(P1))
    now = dict(m.get_parameter_dictionary())
    for method, p in (('central_difference', 2), ('fourth_order_central_difference', 4)):
        for pname in P1:
            Z = np.asarray(py_get_sensitivity_to_parameter(m, x_model, pname, method=method))
            c.count('evaluations'); c.count('transitions', n)
            for i in range(n):
                def g(v, i=i):
                    Pq = dict(P1); Pq[pname] = v
                    return f(x_model, Pq)[i]
                st = stencil(g, P1[pname], method)
                if abs(Z[i] - st) > 1e-7 * (1 + abs(st)):
                    c.violation('C18/sensitivity/%s/after-set_params' % method, 'after Model.set_params the sensitivity d f_%s / d %s = %r, the scheme at the current '
                                'parameters gives %r' % (order[i], pname, Z[i], st), dict(case, i=i, param=pname, method=method, params=P1))
                    break
            after = dict(m.get_parameter_dictionary())
            if after != now:
                c.violation('C18/parameters-changed/after-set_params', 'parameters set with Model.set_params were changed by a sensitivity call: %s -> %s' % (now, after),
                            dict(case, param=pname, method=method))
                m.set_params(now)
        J = np.asarray(py_get_jacobian(m, x_model, method=method))
        for i in range(n):
            for j in range(n):
                def g(v, i=i, j=j):
                    x = x_model.copy(); x[j] = v
                    return f(x, P1)[i]
                st = stencil(g, x_model[j], method)
                if abs(J[i, j] - st) > 1e-7 * (1 + abs(st)):
                    c.violation('C18/jacobian/%s/after-set_params' % method, 'after Model.set_params d f_%s / d %s = %r, the scheme at the current parameters gives %r' % (
                        order[i], order[j], J[i, j], st), dict(case, i=i, j=j, method=method, params=P1))
    m.set_params(dict(P0))
    before = dict(m.get_parameter_dictionary())
    # parameters survive failing calls as well
    for bad_call in (lambda: py_get_sensitivity_to_parameter(m, x_model, 'no_such_parameter'),
                     lambda: py_get_sensitivity_to_parameter(m, x_model, 'k', method='no_such_method'),
                     lambda: py_get_jacobian(m, x_model, method='no_such_method'),
                     # a state vector that is too long (a result row that still carries its time column) 
                     lambda: py_get_sensitivity_to_parameter(m, np.append(x_model, 0.7), 'k'),
                     lambda: py_get_sensitivity_to_parameter(m, np.append(x_model, 0.7), 'k2', method='forward_difference'),
                     lambda: py_get_jacobian(m, np.append(x_model, 0.7))):
        try:
            bad_call()
        except Exception:
            pass
        c.count('evaluations'); c.count('transitions')
        after = dict(m.get_parameter_dictionary())
        if after != before:
            c.violation('C18/parameters-changed', 'parameter values changed by a failing call: %s -> %s' % (before, after), case)
            m.set_params(before)
    c.nontrivial(repr((sp['name'], sorted(sp['params'].items()), sorted(state.items()))))
    if len(c.samples) < 2 and sp['name'] in ('ma3rep', 'hillpos'):
        c.sample(dict(model=sp['name'], params=sp['params'], state=state, jacobian=np.asarray(py_get_jacobian(m, x_model)).tolist()))


def run(ctx):
    pvs = [(1.0, 0.1, 3.2, 2.0), (3.2, 1.0, 0.1, 1.0), (0.1, 3.2, 1.0, 2.5), (1.0, 1.0, 1.0, 2.0)] if ctx.quick else \
        [(k, k2, K, n) for k in PVALS for k2 in (0.1, 3.2) for K in PVALS for n in (1.0, 2.0, 2.5)]
    items = []
    for pv in pvs:
        for sp in networks(pv):
            ns = len(sp['species'])
            vals = SVALS if sp['name'] != 'poly_near_zero' else [0.004, 0.015, 2.0]
            for si, st in enumerate(itertools.product(vals, repeat=ns)):
                items.append((sp, dict(zip(sp['species'], st))))
            # counts of a thousand and more (a step of 0.01 is relatively tiny there)
            items.append((sp, dict(zip(sp['species'], [2500.0, 1200.0, 1000.0]))))
            items.append((sp, dict(zip(sp['species'], [1000.0, 0.7, 3000.0]))))
            if all(r['kind'] == 'massaction' for r in sp['reactions']):
                # polynomial rate equations: states at which a whole row of the rate equations is exactly zero (a species at 0,
                # or production cancelling consumption exactly) - where a stability Jacobian is wanted
                k_, k2_ = sp['params']['k'], sp['params']['k2']
                items.append((sp, dict(zip(sp['species'], [0.0, 2.0, 0.0]))))
                items.append((sp, dict(zip(sp['species'], [2.0, 0.0, 5.5]))))
                if sp['name'] == 'ma2rep':
                    for a_ in (1.0, 2.0, 4.0):
                        b_ = k_ * a_ * a_ / k2_
                        if k_ * a_ * a_ - k2_ * b_ == 0.0:
                            items.append((sp, {A: a_, B: b_}))
    pmap(check, items, ctx, nshards=256)
    ctx.bounds = dict(parameter_vectors=len(pvs), cases=len(items), h=H, methods=list(METHODS))
    ctx.rule = ('E2: 15 smooth networks (mass action of order 1..4 with repeated reactants, four Hill families, rational and exponential '
                'general rates; 1..3 species) x states from {0.7,2,5.5}^n, two states with counts 1000..3000, and for the polynomial networks states with species at exactly 0 and exact steady states (a row of the rate equations exactly zero) x parameter vectors from {0.1,1,3.2} (Hill exponents 1, 2, 2.5) x '
                'every named parameter x the four difference schemes. Oracle: (1) the same stencil (h=0.01) applied to the reference rate '
                'equations, 1e-7 relative - catches coefficients, signs, orientation, wrong column; (2) the analytic derivative (Richardson-'
                'extrapolated reference) within the scheme\'s truncation bound C h^p max|f^(p+1)| over the stencil interval; (3) the model\'s '
                'parameter dictionary is identical after every call, including failing ones. states = (model, parameter vector, state) cases.')
    ctx.assumptions = ['reference rate equations = stoichiometry x closed-form rates (C01/C03)', 'finite alphabets stand for the open domains']


def replay(ctx, case):
    check(ctx, (case['spec'], case['state']))
