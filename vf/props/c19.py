"""C19 - division conserves molecules and volume; lineage records are consistent (engine E1)."""
import itertools, math, warnings
import numpy as np
from ..core import pmap
from .. import explore as EXP
from ..nets import spec, ma, gen
from ..modelspec import to_model
from ..ref import ssa as RS, lineage_ssa as LS
from ..util import Stream

A, B, D = 'A', 'B', 'D'
ID = lambda s: ('id', s)
NUM = lambda v: ('num', v)


# ----------------------------------------------------------------------------------------------
# (i) splitters: every coin sequence, exact distribution

def splitter_configs(tier):
    out = []
    noises = [0.0, 0.2]
    for noise in noises:
        out.append(dict(cls='PerfectBinomial', noise=0.0) if noise == 0 else None)
        for modes in (dict(A='binomial', B='binomial'), dict(A='perfect', B='binomial'), dict(A='binomial', B='duplicate'), dict(A='perfect', B='duplicate')):
            out.append(dict(cls='General', modes=modes, noise=noise))
            out.append(dict(cls='General', modes=modes, noise=noise, reconfigured=True))
            out.append(dict(cls='General', modes=modes, noise=noise, as_tuples=True))     # the species names of a mode given as a tuple
            for vol in ('binomial', 'perfect', 'duplicate'):
                out.append(dict(cls='Lineage', modes=modes, volume=vol, noise=noise))
    return [o for o in out if o]


def make_splitter(cfg, m):
    from bioscrape.simulator import PerfectBinomialVolumeSplitter, GeneralVolumeSplitter
    from bioscrape.lineage import LineageVolumeSplitter
    if cfg['cls'] == 'PerfectBinomial':
        return PerfectBinomialVolumeSplitter()
    if cfg['cls'] == 'General':
        s = GeneralVolumeSplitter()
        if cfg.get('reconfigured'):
            # a splitter that was configured differently before: the final configuration is what counts
            s.py_set_partitioning({'duplicate': [sp_ for sp_, md in cfg['modes'].items() if md == 'binomial'],
                                   'perfect': [sp_ for sp_, md in cfg['modes'].items() if md == 'duplicate']}, m)
        opts = {}
        for sp_, md in cfg['modes'].items():
            if md != 'binomial':
                opts.setdefault(md, []).append(sp_)
        if cfg.get('as_tuples'):
            opts = {k_: tuple(v_) for k_, v_ in opts.items()}
        s.py_set_partitioning(opts, m)
        s.py_set_partition_noise(cfg['noise'])
        return s
    opts = dict(cfg['modes'])
    opts['volume'] = cfg['volume']
    return LineageVolumeSplitter(m, options=opts, partition_noise=cfg['noise'])


def check_splitter(c, item):
    from bioscrape.types import Model
    from bioscrape.simulator import VolumeCellState
    from bioscrape.lineage import LineageVolumeCellState
    cfg, mother, Vm, u0 = item
    c.count('states')
    m = Model(species=[A, B], reactions=[([A], [B], 'massaction', {'k': 1.0})], initial_condition_dict={A: 1, B: 1})
    spl = make_splitter(cfg, m)
    modes = cfg.get('modes', dict(A='binomial', B='binomial'))
    key = 'C19/splitter/%s/' % cfg['cls']
    case = dict(cfg=cfg, mother=mother, V=Vm, u0=u0)

    def parent():
        st = np.array([float(mother[0]), float(mother[1])])
        if cfg['cls'] == 'Lineage':
            return LineageVolumeCellState(v0=Vm, t0=0.0, state=st, volume=Vm, time=1.0)
        p = VolumeCellState()
        p.py_set_state(st); p.py_set_volume(Vm); p.py_set_time(1.0)
        return p

    def run(us):
        with Stream(us, tail=0.999) as st:
            d, e = spl.py_partition(parent())
        return d, e, st.consumed, st.overrun
    # probe: number of draws and the volume fraction
    d, e, consumed, over = run([u0] + [0.999] * 40)
    if over or consumed > 30:
        c.violation(key + 'draws', 'partition consumed %d(+%d) uniforms' % (consumed, over), case)
        return
    vd, ve = d.py_get_volume(), e.py_get_volume()
    vmode = cfg.get('volume', 'binomial')
    if vmode == 'duplicate':
        if abs(vd - Vm) > 1e-12 or abs(ve - Vm) > 1e-12:
            c.violation(key + 'volume', 'duplicated volume %r -> %r, %r' % (Vm, vd, ve), case)
        p = 1.0
    else:
        if abs(vd + ve - Vm) > 1e-12 * Vm or vd <= 0 or ve <= 0:
            c.violation(key + 'volume', 'daughter volumes %r + %r do not add up to the mother\'s %r' % (vd, ve, Vm), case)
        p = vd / Vm
    has_noise_draw = cfg['cls'] == 'General' or (cfg['cls'] == 'Lineage' and vmode == 'binomial')
    ncoins = consumed - (1 if has_noise_draw else 0)
    dist = {}
    total = 0.0
    for coins in itertools.product((0, 1), repeat=ncoins):
        us = ([u0] if has_noise_draw else []) + [(p / 2 if b else (1 + p) / 2) for b in coins]
        d, e, cons2, over2 = run(us)
        c.count('evaluations'); c.count('traces'); c.count('transitions', len(us))
        ds, es = [float(v) for v in d.py_get_state()], [float(v) for v in e.py_get_state()]
        if cons2 != consumed or over2:
            c.violation(key + 'draws', 'coin sequence %s consumed %d(+%d) uniforms instead of %d' % (coins, cons2, over2, consumed), case)
            return
        meas = 1.0
        for b in coins:
            meas *= (p if b else 1 - p)
        total += meas
        for i, s in enumerate((A, B)):
            md = modes.get(s, 'binomial')
            n = float(mother[i])
            if md == 'duplicate':
                if ds[i] != n or es[i] != n:
                    c.violation(key + 'duplicate', 'duplicated species %s: mother %r, daughters %r and %r' % (s, n, ds[i], es[i]), case)
            else:
                if ds[i] + es[i] != n or ds[i] < 0 or es[i] < 0 or ds[i] != int(ds[i]):
                    c.violation(key + 'conservation/' + md, '%s species %s: mother %r, daughters %r + %r' % (md, s, n, ds[i], es[i]), case)
                if md == 'perfect' and not (math.floor(p * n - 1e-8) <= ds[i] <= math.ceil(p * n + 1e-8)):
                    c.violation(key + 'perfect-rounding', 'perfect species %s: daughter got %r of %r at volume fraction %r' % (s, ds[i], n, p), case)
        kk = tuple(ds[i] for i, s in enumerate((A, B)) if modes.get(s, 'binomial') == 'binomial')
        dist[kk] = dist.get(kk, 0.0) + meas
    # exact distribution of the binomial species: product of Binomial(n, p)
    bins = [int(mother[i]) for i, s in enumerate((A, B)) if modes.get(s, 'binomial') == 'binomial']
    if bins and p < 1.0:
        for kk in itertools.product(*[range(n + 1) for n in bins]):
            want = 1.0
            for k, n in zip(kk, bins):
                want *= math.comb(n, k) * p ** k * (1 - p) ** (n - k)
            got = dist.get(tuple(float(k) for k in kk), 0.0)
            if abs(got - want) > 1e-9:
                c.violation(key + 'binomial-law', 'P(daughter gets %s of %s) = %.6f summed over coin cells, Binomial(n, p=%.4f) gives %.6f' % (
                    kk, bins, got, p, want), case)
                break
    c.nontrivial(repr((cfg, mother, Vm, u0)))
    if len(c.samples) < 1 and ncoins >= 3:
        c.sample(dict(splitter=cfg, mother=mother, volume=Vm, volume_fraction=p, coins=ncoins, distribution={str(k): v for k, v in dist.items()}))


# ----------------------------------------------------------------------------------------------
# (ii) lineage simulator

def lineage_models(tier):
    P = {'g': 1.2, 'kb': 1.5, 'kd': 0.8, 'thr': 0.5}
    birthdeath = [ma([], [A], 'kb'), ma([A], [], 'kd')]
    decay = [ma([A], [], 2.0)]
    rule = [dict(type='assignment', target=B, rhs=('*', NUM(2), ID(A)), freq='repeated')]
    base = dict(species=[A, B, D], params=P)
    spl = dict(modes={A: 'binomial', B: 'perfect', D: 'duplicate'}, volume='binomial', noise=0.2)

    def L(name, rx, x0, **kw):
        d = dict(name=name, species=[A, B, D], x0=x0, reactions=rx, params=P, rules=kw.pop('rules', []), splitter=kw.pop('splitter', spl))
        d.update(kw)
        return d
    x0 = {A: 3, B: 2, D: 1}
    out = [
        L('linear+time', birthdeath, x0, volume_rules=[dict(type='linear', growth_rate=1.2)], division_rules=[dict(type='time', threshold=0.5)]),
        L('mult+volume', birthdeath, x0, volume_rules=[dict(type='multiplicative', growth_rate=1.5)], division_rules=[dict(type='volume', threshold=1.6)]),
        L('assign+deltav', birthdeath, x0, volume_rules=[dict(type='assignment', equation=('+', NUM(1), ('*', NUM(2), ('t',))))],
          division_rules=[dict(type='deltav', threshold=0.7)]),
        L('ode+general', birthdeath, x0, volume_rules=[dict(type='ode', equation=('+', NUM(0.5), ('*', NUM(0.1), ID(A))))],
          division_rules=[dict(type='general', equation=('-', ('vol',), NUM(1.4)))]),
        L('exhausted+time', decay, {A: 1, B: 2, D: 1}, volume_rules=[dict(type='linear', growth_rate=1.2)], division_rules=[dict(type='time', threshold=0.75)]),
        L('no-reactions', [], x0, volume_rules=[dict(type='multiplicative', growth_rate=1.0)], division_rules=[dict(type='volume', threshold=1.5)]),
        L('death-species', birthdeath, x0, volume_rules=[dict(type='linear', growth_rate=1.2)], division_rules=[dict(type='time', threshold=0.75)],
          death_rules=[dict(type='species', specie=A, threshold=5.0, comp='>')]),
        L('death-general', birthdeath, x0, volume_rules=[dict(type='linear', growth_rate=1.2)], division_rules=[dict(type='time', threshold=0.75)],
          death_rules=[dict(type='general', equation=('-', NUM(0.5), ID(A)))]),
        L('events', birthdeath, x0, volume_rules=[dict(type='linear', growth_rate=0.4)],
          events=[dict(kind='volume', type='linear', growth_rate=0.3, prop=ma([], [], 0.9)),
                  dict(kind='division', type='division', prop=ma([], [], 0.7)),
                  dict(kind='death', type='death', prop=ma([A], [], 0.1))]),
        L('rule+event-splitters', birthdeath, x0, volume_rules=[dict(type='linear', growth_rate=1.2)],
          division_rules=[dict(type='volume', threshold=1.55, splitter=dict(modes={A: 'perfect', B: 'binomial', D: 'binomial'}, volume='perfect', noise=0.0))],
          events=[dict(kind='division', type='division', prop=ma([], [], 0.9),
                       splitter=dict(modes={A: 'duplicate', B: 'duplicate', D: 'duplicate'}, volume='duplicate', noise=0.0))]),
        L('rules+time', birthdeath, x0, rules=rule, volume_rules=[dict(type='linear', growth_rate=1.2)], division_rules=[dict(type='time', threshold=0.5)],
          splitter=dict(modes={A: 'binomial', B: 'binomial', D: 'perfect'}, volume='perfect', noise=0.0)),
    ]
    return out


def build_lineage(sp):
    from bioscrape.lineage import LineageModel, LineageVolumeSplitter
    netspec = dict(species=sp['species'], x0=sp['x0'], reactions=sp['reactions'], params=sp['params'], rules=sp.get('rules', []))
    m = to_model(netspec, cls=LineageModel, initialize_model=False)
    rend = lambda tr: __import__('vf.ref.expr', fromlist=['render']).render(tuple(__import__('vf.ref.expr', fromlist=['totuple']).totuple(tr)))
    for r in sp.get('volume_rules', []):
        if r['type'] in ('linear', 'multiplicative'):
            m.create_volume_rule(r['type'], {'growth_rate': r['growth_rate']})
        else:
            m.create_volume_rule(r['type'], {'equation': rend(r['equation'])})
    for r in sp.get('death_rules', []):
        if r['type'] == 'general':
            m.create_death_rule('generalgeneraldeathrule', {'equation': rend(r['equation'])})   # the only spelling the dispatcher accepts (missing comma in its list)
        elif r['type'] == 'species':
            m.create_death_rule('species', {'specie': r['specie'], 'threshold': r['threshold'], 'comp': r['comp']})
        else:
            m.create_death_rule('param', {'param': r['param'], 'threshold': r['threshold'], 'comp': r['comp']})
    def mk_splitter(s):
        opts = dict(s['modes']); opts['volume'] = s['volume']
        return LineageVolumeSplitter(m, options=opts, partition_noise=s['noise'])
    vs = mk_splitter(sp['splitter'])
    for r in sp.get('division_rules', []):
        vr = mk_splitter(r['splitter']) if r.get('splitter') else vs
        if r['type'] == 'general':
            m.create_division_rule('general', {'equation': rend(r['equation'])}, vr)
        else:
            m.create_division_rule(r['type'], {'threshold': r['threshold']}, vr)
    for e in sp.get('events', []):
        pd = {'k': e['prop']['k'], 'species': '*'.join(e['prop']['reactants'])}
        if e['kind'] == 'volume':
            ep = {'growth_rate': e['growth_rate']} if e['type'] in ('linear', 'multiplicative') else {'equation': rend(e['equation'])}
            m.create_volume_event(e['type'], ep, 'massaction', pd)
        elif e['kind'] == 'division':
            m.create_division_event('division', {}, 'massaction', pd, mk_splitter(e['splitter']) if e.get('splitter') else vs)
        else:
            m.create_death_event('death', {}, 'massaction', pd)
    m.py_initialize()
    return m


def lineage_struct(lin, perm):
    n = lin.py_size()
    sch = [lin.py_get_schnitz(i) for i in range(n)]
    ident = {id(s): i for i, s in enumerate(sch)}
    out = []
    for s in sch:
        par = s.py_get_parent()
        dd = s.py_get_daughters()
        out.append(dict(times=[float(v) for v in s.py_get_time()], rows=[[float(r[k]) for k in perm] for r in np.asarray(s.py_get_data())],
                        vols=[float(v) for v in s.py_get_volume()], parent=(ident.get(id(par), 'outside') if par is not None else None),
                        daughters=[ident.get(id(x_), 'outside') for x_ in dd] if (dd is not None and dd[0] is not None) else None,
                        parent_back=(par is not None and any(z is s for z in (par.py_get_daughters() or ())))))
    return out


def run_config(c, cfg):
    from bioscrape.lineage import LineageCSimInterface, SafeLineageCSimInterface, LineageSSASimulator, LineageVolumeCellState
    sp, times, mode = cfg['spec'], cfg['times'], cfg['mode']
    delta = times[1] - times[0]
    with warnings.catch_warnings():
        warnings.simplefilter('ignore')
        m = build_lineage(sp)
    order = m.get_species_list()
    perm = [order.index(s) for s in sp['species']]
    netspec = dict(sp)
    net = RS.Net(netspec, 'stochvol', cfg['safe'])
    net.spec = sp
    iface = (SafeLineageCSimInterface if cfg['safe'] else LineageCSimInterface)(m)
    iface.py_set_dt(delta)
    iface.py_set_initial_time(times[0])
    x0v = np.array([float(sp['x0'][s]) for s in order])
    cell0 = dict(state={s: float(sp['x0'][s]) for s in sp['species']}, V=1.0, V0=1.0, t=0.0, t0=0.0)
    pre = 'C19/%s/%s/' % (mode, sp['name'])
    states = set()
    first = [True]

    shared_sim = LineageSSASimulator()      # one simulator object for all runs of this configuration

    def impl(us):
        v = LineageVolumeCellState(v0=1.0, t0=0.0, state=x0v.copy())
        sim = shared_sim
        with warnings.catch_warnings():
            warnings.simplefilter('ignore')
            with Stream(us, tail=0.37) as st:
                if mode == 'single':
                    r = sim.py_SimulateSingleCell(np.array(times, dtype=float), Model=m, interface=iface, v=v)
                else:
                    lin = sim.py_SimulateCellLineage(np.array(times, dtype=float), [v], iface)
        if mode == 'single':
            return dict(rows=[[float(q[k]) for k in perm] for q in np.asarray(r.py_get_result())], vols=[float(q) for q in r.py_get_volume()],
                        times=[float(q) for q in r.py_get_timepoints()], divided=r.py_get_divided(), dead=r.py_get_dead(),
                        consumed=st.consumed, overrun=st.overrun)
        return dict(schnitzes=lineage_struct(lin, perm), consumed=st.consumed, overrun=st.overrun)

    def factory():
        if mode == 'single':
            return LS.single_cell(net, times, dict(cell0), delta)
        return LS.cell_lineage(net, times, dict(cell0), delta)

    def close(a, b):
        return len(a) == len(b) and all(abs(x_ - y_) <= 1e-9 * (1 + abs(x_)) for x_, y_ in zip(a, b))

    def on_trace(choices, menus, ref):
        got = impl(ref['us'])
        c.count('traces'); c.count('evaluations'); c.count('transitions', len(choices))
        if first[0]:
            first[0] = False
            if impl(ref['us']) != got:
                c.harness_error('non-deterministic replay ' + sp['name'])
        letters = [mm.letters[ch].name for mm, ch in zip(menus, choices)]
        case = dict(cfg=cfg, us=ref['us'], letters=letters)
        if got['consumed'] != len(ref['us']) or got['overrun']:
            c.violation(pre + 'draws', 'implementation consumed %d(+%d) uniforms, reference %d' % (got['consumed'], got['overrun'], len(ref['us'])), case)
            return
        cells_impl = [got] if mode == 'single' else got['schnitzes']
        cells_ref = [ref] if mode == 'single' else ref['schnitzes']
        # invariants on the implementation's own records
        for ci, cell in enumerate(cells_impl):
            if any(v <= 0 for v in cell['vols']):
                c.violation(pre + 'volume-positive', 'cell %d reports a non-positive volume: %s' % (ci, cell['vols']), case)
                return
            if len(cell['rows']) != len(cell['times']) or len(cell['vols']) != len(cell['times']):
                c.violation(pre + 'shape', 'cell %d: %d rows, %d volumes, %d times' % (ci, len(cell['rows']), len(cell['vols']), len(cell['times'])), case)
                return
        if mode == 'lineage':
            for ci, cell in enumerate(cells_impl):
                if cell['parent'] is not None:
                    mom = cells_impl[cell['parent']] if cell['parent'] != 'outside' else None
                    if mom is None or not cell['parent_back']:
                        c.violation(pre + 'links', 'cell %d: parent / daughter links are not mutual' % ci, case)
                        return
                    if cell['times'][0] != mom['times'][-1]:
                        c.violation(pre + 'daughter-start-time', 'cell %d starts at %r, its mother ends at %r' % (ci, cell['times'][0], mom['times'][-1]), case)
                        return
                if cell['daughters']:
                    d1, d2 = (cells_impl[k] for k in cell['daughters'])
                    last = cell['rows'][-1]
                    route = LS.splitter_for(sp, cells_ref[ci]['final']['divided']) if ci < len(cells_ref) and cells_ref[ci]['final']['divided'] >= 0 else sp['splitter']
                    modes = route['modes']
                    for si, s in enumerate(sp['species']):
                        a_, b_ = d1['rows'][0][si], d2['rows'][0][si]
                        md = modes.get(s, 'binomial')
                        rule_targets = {r['target'] for r in sp.get('rules', [])}
                        if s in rule_targets:
                            continue
                        if md == 'duplicate' and (a_ != last[si] or b_ != last[si]):
                            c.violation(pre + 'partition-duplicate', 'duplicated %s: mother %r daughters %r %r' % (s, last[si], a_, b_), case)
                            return
                        if md != 'duplicate' and (a_ + b_ != last[si] or a_ < 0 or b_ < 0):
                            c.violation(pre + 'partition-conservation', '%s %s: mother ends with %r, daughters start with %r + %r' % (md, s, last[si], a_, b_), case)
                            return
                    if route['volume'] != 'duplicate' and abs(d1['vols'][0] + d2['vols'][0] - cell['vols'][-1]) > 1e-9 * cell['vols'][-1]:
                        c.violation(pre + 'partition-volume', 'daughter volumes %r + %r, mother %r' % (d1['vols'][0], d2['vols'][0], cell['vols'][-1]), case)
                        return
        # conformance with the reference
        if len(cells_impl) != len(cells_ref):
            c.violation(pre + 'cells', '%d cells simulated, reference %d' % (len(cells_impl), len(cells_ref)), case)
            return
        for ci, (a_, b_) in enumerate(zip(cells_ref, cells_impl)):
            if a_['times'] != b_['times'] or len(a_['rows']) != len(b_['rows']) or any(not close(x_, y_) for x_, y_ in zip(a_['rows'], b_['rows'])):
                c.violation(pre + 'rows', 'cell %d: reference times %s rows %s, implementation times %s rows %s' % (
                    ci, a_['times'], a_['rows'], b_['times'], b_['rows']), case)
                return
            if not close(a_['vols'], b_['vols']):
                c.violation(pre + 'volume-trace', 'cell %d: reference volumes %s, implementation %s' % (ci, a_['vols'], b_['vols']), case)
                return
            if mode == 'single' and (a_['divided'] != b_['divided'] or a_['dead'] != b_['dead']):
                c.violation(pre + 'fate', 'reference divided=%s dead=%s, implementation divided=%s dead=%s' % (a_['divided'], a_['dead'], b_['divided'], b_['dead']), case)
                return
            if mode == 'lineage' and (a_['parent'] != b_['parent'] or a_['daughters'] != b_['daughters']):
                c.violation(pre + 'tree', 'cell %d: reference parent %s daughters %s, implementation %s %s' % (ci, a_['parent'], a_['daughters'], b_['parent'], b_['daughters']), case)
                return
        if mode == 'single':
            for v in ref['visited']:
                states.add(v)
        else:
            states.add(len(cells_ref))
        if len(c.samples) < 1 and len(ref['us']) > 4:
            c.sample(dict(model=sp['name'], mode=mode, letters=letters, cells=[dict(times=z['times'], rows=z['rows'], vols=z['vols']) for z in cells_ref][:3]))
    EXP.explore(factory, cfg['bound'], on_trace, max_traces=cfg.get('cap'))
    c.count('states', len(states))
    c.nontrivial((sp['name'], mode, cfg['safe'], len(times)))


def tree_shapes(n_internal):
    """every full binary tree with the given number of dividing cells, as nested tuples: () leaf, (left, right) mother"""
    if n_internal == 0:
        return [()]
    out = []
    for k in range(n_internal):
        for l in tree_shapes(k):
            for r in tree_shapes(n_internal - 1 - k):
                out.append((l, r))
    return out


def check_records(c, item):
    """Schnitz / Lineage containers on hand-built family trees of every shape: links mutual, sub-lineages are exactly the
    descendants, generations, truncation keeps rows and links consistent"""
    from bioscrape.types import Schnitz, Lineage, ExperimentalLineage
    shape, order = item
    nodes = []          # (schnitz, depth, parent index, [daughter indices])

    def build(sh, depth, parent):
        i = len(nodes)
        t = np.array([depth + 0.0, depth + 0.5, depth + 1.0])
        sch = Schnitz(t, np.array([[float(i), 1.0], [float(i), 2.0], [float(i), 3.0]]), np.array([1.0, 1.5, 2.0]))
        nodes.append([sch, depth, parent, []])
        if sh:
            a = build(sh[0], depth + 1, i)
            b = build(sh[1], depth + 1, i)
            nodes[i][3] = [a, b]
            sch.py_set_daughters(nodes[a][0], nodes[b][0])
            nodes[a][0].py_set_parent(sch); nodes[b][0].py_set_parent(sch)
        return i
    build(shape, 0, None)
    n = len(nodes)
    idx = list(range(n))
    if order == 'reversed':
        idx = idx[::-1]
    elif order == 'bfs':
        idx = sorted(idx, key=lambda i: (nodes[i][1], i))
    lin = Lineage() if order != 'experimental' else ExperimentalLineage({'A': 0, 'B': 1})
    for i in idx:
        lin.py_add_schnitz(nodes[i][0])
    ident = {id(nodes[i][0]): i for i in range(n)}
    case = dict(shape=repr(shape), order=order, records=True)
    key = 'C19/records/'
    c.count('states'); c.count('traces')

    def descendants(i):
        out, todo = [], [i]
        while todo:
            j = todo.pop(0)
            out.append(j)
            todo += nodes[j][3]
        return out
    if lin.py_size() != n:
        c.violation(key + 'size', 'lineage of %d cells reports size %d' % (n, lin.py_size()), case)
        return
    got_order = [ident.get(id(lin.py_get_schnitz(k))) for k in range(n)]
    if got_order != idx:
        c.violation(key + 'order', 'cells come back as %s, added as %s' % (got_order, idx), case)
        return
    for i in range(n):
        sch = nodes[i][0]
        c.count('evaluations'); c.count('transitions')
        sub = sch.get_sub_lineage() if order != 'experimental' else sch.get_sub_lineage({'A': 0, 'B': 1})
        members = [ident.get(id(sub.py_get_schnitz(k)), 'outside') for k in range(sub.py_size())]
        exp = descendants(i)
        if sorted(map(str, members)) != sorted(map(str, exp)) or len(set(members)) != len(members):
            c.violation(key + 'sub-lineage', 'sub-lineage of cell %d (tree %s) holds cells %s, its descendants are %s' % (i, shape, members, exp), case)
            return
        inside = set(members)
        for k in range(sub.py_size()):
            s2 = sub.py_get_schnitz(k)
            d = s2.py_get_daughters()
            for x in (d if d is not None else ()):
                if x is not None and ident.get(id(x)) not in inside:
                    c.violation(key + 'sub-lineage-links', 'a daughter link of the sub-lineage of cell %d leaves the record' % i, case)
                    return
        if order == 'experimental' and sub.py_get_species_index('B') != 1:
            c.violation(key + 'sub-lineage-species', 'the experimental sub-lineage lost its species dictionary', case)
            return
    # generations
    gens = lin.get_schnitzes_by_generation()
    got_g = [sorted(ident.get(id(x), -1) for x in g) for g in gens]
    depth_max = max(nd[1] for nd in nodes)
    exp_g = [sorted(i for i in range(n) if nodes[i][1] == d) for d in range(depth_max + 1)]
    c.count('evaluations'); c.count('transitions')
    if order in ('given', 'bfs', 'experimental') and got_g != exp_g:
        c.violation(key + 'generations', 'generations %s, expected %s (tree %s)' % (got_g, exp_g, shape), case)
        return
    # truncation windows aligned with sample times
    for (t0, t1) in ((0.0, depth_max + 1.0), (0.5, 1.5), (1.0, 2.5), (1.5, 1.5), (2.0, depth_max + 1.0), (0.0, 0.5)):
        c.count('evaluations'); c.count('transitions')
        tl = lin.truncate_lineage(t0, t1)
        keep = [i for i in idx if not (nodes[i][1] + 1.0 < t0 or nodes[i][1] + 0.0 > t1)]
        if tl.py_size() != len(keep):
            c.violation(key + 'truncate-size', 'window [%s, %s] keeps %d cells, %d overlap it' % (t0, t1, tl.py_size(), len(keep)), case)
            return
        new = [tl.py_get_schnitz(k) for k in range(tl.py_size())]
        nid = {id(x): keep[k] for k, x in enumerate(new)}
        for k, x in enumerate(new):
            i = keep[k]
            tt = [t for t in (nodes[i][1] + 0.0, nodes[i][1] + 0.5, nodes[i][1] + 1.0) if t0 <= t <= t1]
            data = np.asarray(x.py_get_data())
            if list(np.asarray(x.py_get_time())) != tt or (len(tt) and (list(data[:, 0]) != [float(i)] * len(tt))) or len(np.asarray(x.py_get_volume())) != len(tt):
                c.violation(key + 'truncate-rows', 'window [%s, %s]: cell %d has times %s, expected %s' % (t0, t1, i, list(np.asarray(x.py_get_time())), tt), case)
                return
            par = x.py_get_parent()
            exp_par = nodes[i][2] if nodes[i][2] in keep else None
            if (nid.get(id(par)) if par is not None else None) != exp_par:
                c.violation(key + 'truncate-links', 'window [%s, %s]: parent of cell %d is %s, expected %s' % (t0, t1, i, nid.get(id(par)) if par is not None else None, exp_par), case)
                return
            d = x.py_get_daughters()
            got_d = [nid.get(id(y), 'outside') if y is not None else None for y in (d if d is not None else (None, None))]
            exp_d = [j if j in keep else None for j in nodes[i][3]] or [None, None]
            if got_d != exp_d:
                c.violation(key + 'truncate-links', 'window [%s, %s]: daughters of cell %d are %s, expected %s' % (t0, t1, i, got_d, exp_d), case)
                return
            for y in (d if d is not None else ()):
                if y is not None and y.py_get_parent() is not x:
                    c.violation(key + 'truncate-links', 'window [%s, %s]: daughter of cell %d does not point back to it' % (t0, t1, i), case)
                    return
    # the lineage that was truncated is itself unchanged: same cells, same mutual links, same rows
    for i in range(n):
        sch = nodes[i][0]
        par = sch.py_get_parent()
        d = sch.py_get_daughters()
        got_par = ident.get(id(par), 'outside') if par is not None else None
        got_d = [ident.get(id(y), 'outside') if y is not None else None for y in (d if d is not None else (None, None))]
        exp_d = list(nodes[i][3]) or [None, None]
        if got_par != nodes[i][2] or got_d != exp_d or len(np.asarray(sch.py_get_time())) != 3:
            c.violation(key + 'truncate-changed-source', 'after truncate_lineage the ORIGINAL cell %d has parent %s daughters %s and %d rows, it was built with parent %s daughters %s and 3 rows' % (
                i, got_par, got_d, len(np.asarray(sch.py_get_time())), nodes[i][2], exp_d), case)
            return
    c.nontrivial(('records', repr(shape), order))


def run(ctx):
    rec = [(sh, order) for k in range(0, 5 if ctx.quick else 7) for sh in tree_shapes(k) for order in ('given', 'reversed', 'bfs', 'experimental')]
    pmap(check_records, rec, ctx, nshards=32)
    items = []
    for cfg in splitter_configs(ctx.tier):
        for mother in itertools.product(range(5 if not ctx.quick else 4), repeat=2):
            for Vm in (1.0, 2.5):
                for u0 in ((0.3,) if ctx.quick else (0.1, 0.5, 0.9)):
                    items.append((cfg, mother, Vm, u0))
    pmap(check_splitter, items, ctx, nshards=128)
    cfgs = []
    for sp in lineage_models(ctx.tier):
        for N in ((5,) if ctx.quick else (5, 7)):
            times = [0.25 * i for i in range(N)]
            for safe in ((False,) if ctx.quick else (False, True)):
                cfgs.append(dict(spec=sp, times=times, mode='single', safe=safe, bound=3))
            cfgs.append(dict(spec=sp, times=[0.25 * i for i in range(N + 2)], mode='lineage', safe=False, bound=2,
                             cap=12000 if ctx.quick else 60000))
        # a grid that starts fine and gets coarser (every time a multiple of the first step)
        cfgs.append(dict(spec=sp, times=[0.0, 0.25, 0.5, 1.0, 1.5, 2.5], mode='lineage', safe=False, bound=2, cap=6000 if ctx.quick else 30000))
        cfgs.append(dict(spec=sp, times=[0.0, 0.25, 0.5, 1.0, 1.5, 2.5], mode='single', safe=False, bound=2))
    pmap(run_config, cfgs, ctx, nshards=len(cfgs))
    ctx.bounds = dict(record_trees=len(rec), splitter_cases=len(items), lineage_configs=len(cfgs), cost_bound=max(c_['bound'] for c_ in cfgs))
    ctx.rule = ('E1: (i) PerfectBinomialVolumeSplitter, GeneralVolumeSplitter and LineageVolumeSplitter in every per-species mode combination x '
                'volume mode x partition noise on mothers from {0..4}^2 x volumes {1, 2.5}: every coin sequence is scripted (cells [0,p) and [p,1) '
                'of every binom_rnd_f coin and perfect-rounding coin), conservation / duplication / volume split are checked on each and the '
                'summed cell measures must equal the product Binomial(n, p) law with p the observed daughter volume fraction. (ii) ten lineage '
                'models (linear / multiplicative / assignment / ODE volume rules; time / volume / deltaV / general division rules; species and '
                'general death rules; volume, division and death events; a model whose propensity reaches zero; a reaction-free model; a model '
                'with a repeated rule) through py_SimulateSingleCell (plain and safe interface) and py_SimulateCellLineage: the choice tree of '
                'the reference (vf/ref/lineage_ssa.py) is explored to the cost bound, every trace replayed, and the real records checked: '
                'positive volume on every row, daughters start at the mother\'s last time from a valid partition of her last state, mutual '
                'links, conformance of every row, volume, fate and tree shape. (iii) record containers: every full binary family tree with up to 4 (thorough: 6) dividing cells (up to 13 cells, 7 generations), added to a Lineage / ExperimentalLineage in four orders: size and order, the sub-lineage of every cell is exactly its descendants with no link leaving it, generations, and truncation to six windows keeps exactly the overlapping cells, their rows inside the window and mutual links among them. states = distinct (state, grid index) of single cells + '
                'distinct tree sizes.')
    ctx.assumptions = ['direct-method mapping as in C05; rules and events without noise terms (their normal variates are not scripted)',
                       'lineage exploration is capped per configuration (the cap is reported in the bounds)']
    ctx.exhaustive = ctx.quick is False


def replay(ctx, case):
    if case.get('records'):
        return check_records(ctx, (eval(case['shape']), case['order']))
    if 'mother' in case:
        check_splitter(ctx, (case['cfg'], tuple(case['mother']), case['V'], case['u0']))
    else:
        run_config(ctx, case['cfg'])
