"""C17 - copies and pickles of models and results behave like the original (E2 + E3)."""
import copy, itertools, os, pickle, warnings
import numpy as np
SEED = int(os.environ.get('VERIF_SEED', '0') or 0)   # rotates the real seeds; no verdict depends on it
from ..core import pmap
from ..nets import spec, ma, hill, gen
from ..modelspec import to_model, reaction_tuple, rule_tuple
from ..util import Stream

A, B, C, X = 'A', 'B', 'C', 'X'
ID = lambda s: ('id', s)
NUM = lambda v: ('num', v)
STATES = [[2.0, 3.0, 1.0, 0.0], [0.0, 1.0, 4.0, 2.0], [5.0, 0.0, 2.0, 1.0], [1.0, 1.0, 1.0, 1.0], [3.0, 6.0, 0.0, 0.5], [7.0, 2.0, 3.0, 4.0]]
SCRIPT = [0.31, 0.77, 0.52, 0.13, 0.9, 0.44, 0.6, 0.25, 0.8, 0.35, 0.66, 0.2]
TIMES = np.linspace(0, 1.0, 5)
P = {'kf': 1.7, 'KK': 2.0, 'nn': 2.0, 'tau': 0.3, 'mu': 0.5, 'sd': 0.2, 'sh': 2.0, 'sc': 0.1, 'q': 0.4}


def plain_specs():
    big_general = ('+', ('*', ID('kf'), ('^', ID(A), NUM(2))),
                   ('/', ('abs', ('-', ID(B), ID(C))), ('+', NUM(1), ('exp', ('neg', ('*', ('t',), ID('q')))))))
    more_general = ('+', ('min', ID(A), ('max', ID(B), NUM(1))), ('*', ('step', ('-', ID(A), NUM(1.5))), ('log', ('+', ID(C), ('vol',)))))
    x0 = {A: 3, B: 2, C: 1, X: 0}
    d = {}
    d['constitutive'] = spec('constitutive', [A, B, C, X], x0, [ma([], [A], 'kf'), ma([A], [], 0.5)], P)
    d['uni_bi_massaction'] = spec('uni_bi_ma', [A, B, C, X], x0, [ma([A], [B], 'kf'), ma([A, B], [C], 0.4), ma([A, A, B], [C, C], 0.05), ma([C], [A], 1.0)], P)
    for k in ('hillpositive', 'hillnegative'):
        d[k] = spec(k, [A, B, C, X], x0, [hill(k, [A], [B], 'kf', 'KK', 'nn', C), ma([B], [A], 0.5)], P)
    for k in ('proportionalhillpositive', 'proportionalhillnegative'):
        d[k] = spec(k, [A, B, C, X], x0, [hill(k, [A], [B], 1.2, 1.5, 2.0, C, B), ma([B], [A], 0.5)], P)
    d['general_terms1'] = spec('general1', [A, B, C, X], x0, [gen([A], [B], ('*', ('/', ID(A), ('+', NUM(1), ID(A))), big_general)), ma([B], [A], 0.5)], P)   # vanishes at A = 0: the model stays bounded for every seed
    d['general_terms2'] = spec('general2', [A, B, C, X], x0, [gen([], [C], more_general), ma([C], [], 0.5)], P)
    for dl in (dict(type='fixed', delay='tau'), dict(type='gaussian', mean='mu', std='sd'), dict(type='gamma', k='sh', theta='sc')):
        d['delay_' + dl['type']] = spec('delay_' + dl['type'], [A, B, C, X], x0,
                                        [dict(ma([A], [B], 'kf'), delay=dict(dl, reactants=[], products=[C])), ma([B], [A], 0.5), ma([C], [], 0.3)], P)
    rules = {
        'additive': dict(type='additive', target=X, sources=[A, B], freq='repeated'),
        'assign_species_dt': dict(type='assignment', target=X, rhs=('+', ID(X), NUM(1)), freq='dt'),
        'assign_param': dict(type='assignment', target='q', rhs=('/', ID(B), NUM(4)), freq='repeated'),
        'assign_start': dict(type='assignment', target=X, rhs=('*', NUM(2), ID(A)), freq='start'),
        'assign_sched': dict(type='assignment', target=X, rhs=('*', NUM(3), ID(A)), freq=0.5),
        'ode': dict(type='ode', target=X, rhs=ID('q')),
    }
    for rn, r in rules.items():
        d['rule_' + rn] = spec('rule_' + rn, [A, B, C, X], x0, [gen([A], [B], ('*', ID('q'), ID(A))), ma([B], [A], 0.5)], P, [r])
    d['everything'] = spec('everything', [A, B, C, X], x0,
                           [ma([], [A], 'kf'), ma([A, A, B], [C], 0.05), hill('hillpositive', [], [B], 'kf', 'KK', 'nn', C),
                            hill('proportionalhillnegative', [B], [A], 1.2, 1.5, 2.0, C, B), gen([C], [], ('*', ID(C), big_general)),
                            dict(ma([A], [B], 0.7), delay=dict(type='gamma', k='sh', theta='sc', reactants=[], products=[C]))],
                           P, [rules['assign_param'], rules['additive']])
    return d


def lineage_variants():
    """name -> function(model_class, splitter_class) -> initialised LineageModel"""
    def base(extra_rules=(), events=(), division=None, splitter_opts=None, noise=0.0):
        def make():
            from bioscrape.lineage import LineageModel, LineageVolumeSplitter
            sp = spec('lin', [A, B, C, X], {A: 6, B: 3, C: 2, X: 0}, [ma([], [A], 'kf'), ma([A], [B], 0.4), ma([B], [], 0.3)], P,
                      [dict(type='assignment', target=X, rhs=('+', ID(A), ID(B)), freq='repeated')])
            m = to_model(sp, cls=LineageModel, initialize_model=False)
            for rt, rd in extra_rules:
                if 'volume' in rt.lower():
                    m.create_volume_rule(rt.split(':')[1], dict(rd))
                elif 'death' in rt.lower():
                    m.create_death_rule(rt.split(':')[1], dict(rd))
            vs = LineageVolumeSplitter(m, options=dict(splitter_opts or {}), partition_noise=noise)
            if division:
                m.create_division_rule(division[0], dict(division[1]), vs)
            for et, ep, pt, pp in events:
                if 'division' in et.lower():
                    m.create_division_event(et.split(':')[1], dict(ep), pt, dict(pp), vs)
                elif 'volume' in et.lower():
                    m.create_volume_event(et.split(':')[1], dict(ep), pt, dict(pp))
                else:
                    m.create_death_event(et.split(':')[1], dict(ep), pt, dict(pp))
            m.py_initialize()
            return m
        return make
    V = {}
    grow = ('volume:linear', {'growth_rate': 1.2})
    V['vol_linear+div_time'] = base([grow], division=('time', {'threshold': 0.5}))
    V['vol_multiplicative+div_volume'] = base([('volume:multiplicative', {'growth_rate': 1.5})], division=('volume', {'threshold': 1.6}))
    V['vol_assignment+div_deltav'] = base([('volume:assignment', {'equation': '1 + 2*t'})], division=('deltav', {'threshold': 0.7}))
    V['vol_ode+div_general'] = base([('volume:ode', {'equation': '0.5 + 0.1*A'})], division=('general', {'equation': 'volume - 1.5'}))
    V['death_species'] = base([grow, ('death:species', {'specie': 'B', 'threshold': 6, 'comp': '>'})], division=('time', {'threshold': 0.5}))
    V['death_param'] = base([grow, ('death:param', {'param': 'q', 'threshold': 5.0, 'comp': '>'})], division=('time', {'threshold': 0.75}))
    # event propensities are constants ('general'): a zero-order mass-action propensity is k*V and feeds back on the volume it grows
    V['events'] = base([grow], events=[('volume:linear', {'growth_rate': 0.2}, 'general', {'rate': '0.8'}),
                                       ('division:division', {}, 'general', {'rate': '0.6'}),
                                       ('death:death', {}, 'general', {'rate': '0.02*B/(1+B)'})])
    V['events_general_volume'] = base([grow], events=[('volume:general', {'equation': 'volume + 0.1'}, 'general', {'rate': '1.0*A/(2+A)'}),
                                                      ('volume:multiplicative', {'growth_rate': 0.1}, 'general', {'rate': '0.5'})],
                                      division=('volume', {'threshold': 1.8}))
    V['split_duplicate'] = base([grow], division=('time', {'threshold': 0.5}), splitter_opts={'default': 'binomial', 'C': 'duplicate', 'B': 'perfect'}, noise=0.2)
    V['split_volume_duplicate'] = base([grow], division=('time', {'threshold': 0.5}), splitter_opts={'volume': 'duplicate', 'A': 'perfect'})
    V['split_perfect_default'] = base([grow], division=('time', {'threshold': 0.5}), splitter_opts={'default': 'perfect', 'volume': 'binomial'}, noise=0.4)
    return V


def arr(a):
    return None if a is None else np.asarray(a, dtype=float).tolist()


def observe_plain(m, lineage=False):
    from bioscrape.simulator import ModelCSimInterface, py_simulate_model
    import bioscrape.random as br
    obs = {}
    if not lineage:
        iface = ModelCSimInterface(m)
    else:
        from bioscrape.lineage import LineageCSimInterface
        iface = LineageCSimInterface(m)
    order = m.get_species_list()
    obs['species'] = sorted((k, float(v)) for k, v in m.get_species_dictionary().items())
    obs['params'] = sorted((k, float(v)) for k, v in m.get_parameter_dictionary().items())
    perm = [order.index(s) for s in sorted(order)]
    obs['S'] = np.asarray(m.py_get_update_array())[perm, :].tolist()
    obs['Sd'] = np.asarray(m.py_get_delay_update_array())[perm, :].tolist()
    pv = m.get_parameter_values()
    props = []
    for st in STATES:
        x = np.zeros(len(order))
        for i, s in enumerate(sorted(order)):
            x[order.index(s)] = st[i % len(st)]
        for pr in m.get_propensities():
            props.append([pr.py_get_propensity(x, pv, 0.5), pr.py_get_volume_propensity(x, pv, 2.5, 0.5),
                          pr.py_verif_get_stochastic_propensity(x, pv, 0.5), pr.py_verif_get_stochastic_volume_propensity(x, pv, 2.5, 0.5)])
    obs['props'] = props
    x0 = np.array(m.get_species_array(), dtype=float)
    dls = []
    for dl in m.get_delays():
        with Stream(SCRIPT):
            dls.append((type(dl).__name__, dl.py_get_delay(x0.copy(), pv)))
    obs['delays'] = dls
    iface.py_set_dt(0.25)
    rl = []
    p_keep = np.array(pv).copy()
    for st in STATES[:3]:
        for t, step in ((0.0, True), (0.5, False), (0.75, True)):
            x = np.zeros(len(order))
            for i, s in enumerate(sorted(order)):
                x[order.index(s)] = st[i % len(st)]
            pv[:] = p_keep
            iface.py_apply_repeated_rules(x, t, step)
            rl.append([x[order.index(s)] for s in sorted(order)] + sorted(zip(m.get_params2index().keys(), [float(v) for v in pv]))[0:0] + [float(v) for _, v in sorted(zip(m.get_params2index().keys(), pv))])
    pv[:] = p_keep
    obs['rules'] = rl
    obs['rule_defs'] = len(m.get_rules())
    if not lineage:
        sims = {}
        for name, kw in (('ssa', dict(stochastic=True)), ('safe', dict(stochastic=True, safe=True)), ('volume', dict(stochastic=True, volume=2.0)),
                         ('delay', dict(stochastic=True, delay=True)), ('det', dict(stochastic=False))):
            br.py_seed_random(4242 + SEED)
            with warnings.catch_warnings():
                warnings.simplefilter('ignore')
                r = py_simulate_model(TIMES, Model=m, return_dataframe=False, **kw)
            sims[name] = np.asarray(r.py_get_result())[:, perm].tolist()
            pv[:] = p_keep     # a rule that assigns a parameter writes into the model during a simulation (outside this property)
        obs['sims'] = sims
    return obs


def lineage_obs(m):
    from bioscrape.lineage import py_SimulateCellLineage, py_SimulateSingleCell
    import bioscrape.random as br
    obs = observe_plain(m, lineage=True)
    order = m.get_species_list()
    perm = [order.index(s) for s in sorted(order)]
    br.py_seed_random(777 + SEED)
    with warnings.catch_warnings():
        warnings.simplefilter('ignore')
        lin = py_SimulateCellLineage(np.linspace(0, 1.5, 13), Model=m)
    obs['lineage'] = lineage_struct(lin, perm)
    br.py_seed_random(778 + SEED)
    with warnings.catch_warnings():
        warnings.simplefilter('ignore')
        r = py_SimulateSingleCell(np.linspace(0, 1.0, 9), Model=m, return_dataframes=False)
    obs['single'] = [np.asarray(r.py_get_result())[:, perm].tolist(), arr(r.py_get_volume()), arr(r.py_get_timepoints()), r.py_get_dead(), r.py_get_divided()]
    with Stream([0.3, 0.8, 0.1, 0.6, 0.55, 0.45, 0.9, 0.2] * 6, tail=0.7):
        with warnings.catch_warnings():
            warnings.simplefilter('ignore')
            lin2 = py_SimulateCellLineage(np.linspace(0, 1.0, 9), Model=m)
    obs['lineage_scripted'] = lineage_struct(lin2, perm)
    m.set_params(dict(obs['params']))
    return obs


def lineage_struct(lin, perm=None):
    n = lin.py_size()
    sch = [lin.py_get_schnitz(i) for i in range(n)]
    ident = {id(s): i for i, s in enumerate(sch)}
    out = []
    for s in sch:
        data = np.asarray(s.py_get_data())
        if perm is not None and data.ndim == 2 and data.shape[1] == len(perm):
            data = data[:, perm]
        par = s.py_get_parent()
        d = s.py_get_daughters()
        out.append(dict(time=arr(s.py_get_time()), data=data.tolist(), volume=arr(s.py_get_volume()),
                        parent=ident.get(id(par), 'outside') if par is not None else None,
                        daughters=[ident.get(id(x), 'outside') if x is not None else None for x in (d if d is not None else (None, None))]))
    return out


def diff(a, b, path=''):
    """first difference between two observation structures, or None"""
    if isinstance(a, dict) and isinstance(b, dict):
        for k in a:
            if k not in b:
                return path + '/' + str(k) + ' missing'
            d = diff(a[k], b[k], path + '/' + str(k))
            if d:
                return d
        return None
    if isinstance(a, (list, tuple)) and isinstance(b, (list, tuple)):
        if len(a) != len(b):
            return '%s: length %d vs %d' % (path, len(a), len(b))
        for i, (x, y) in enumerate(zip(a, b)):
            d = diff(x, y, path + '[%d]' % i)
            if d:
                return d
        return None
    if isinstance(a, float) and isinstance(b, float):
        if a == b or (a != a and b != b):
            return None
        return '%s: %r vs %r' % (path, a, b)
    return None if a == b else '%s: %r vs %r' % (path, a, b)


OPS = ['P', 'D', 'I', 'S', 'E', 'F']


def apply_op(m, op, lineage):
    from bioscrape.simulator import py_simulate_model
    import bioscrape.random as br
    if op == 'P':
        return pickle.loads(pickle.dumps(m))
    if op == 'D':
        return copy.deepcopy(m)
    if op == 'I':
        m.py_initialize()
    elif op == 'S':
        br.py_seed_random(99)
        with warnings.catch_warnings():
            warnings.simplefilter('ignore')
            if lineage:
                from bioscrape.lineage import py_SimulateSingleCell
                py_SimulateSingleCell(np.linspace(0, 0.5, 5), Model=m, return_dataframes=False)
            else:
                py_simulate_model(np.linspace(0, 0.5, 5), Model=m, stochastic=True, return_dataframe=False)
    elif op == 'F' and not lineage:
        # an edit that adds a reaction with a delay of its own (its delay object differs from those of the earlier reactions)
        m.create_reaction([B], [], 'massaction', {'k': 0.21}, 'fixed', [], [A], {'delay': 0.4})
        m.set_species({A: 3})
    elif op in ('E', 'F'):
        m.create_reaction([A], [B], 'massaction', {'k': 0.33})
        m.set_parameter('kf', 2.2)
        m.set_species({A: 4})
        if lineage:
            m.py_initialize()
    return m


def check_model(c, item):
    kind, name, hist = item
    lineage = kind == 'lineage'
    c.count('states')
    key = 'C17/%s/%s/' % (kind, name)
    case = dict(kind=kind, name=name, history=list(hist))

    def fresh():
        if lineage:
            return lineage_variants()[name]()
        return to_model(plain_specs()[name])
    observe = lineage_obs if lineage else observe_plain
    try:
        W = fresh()
        Rm = fresh()
        keep = None
        for op in hist:
            if op in 'PD':
                keep = W
                W = apply_op(W, op, lineage)
            else:
                W = apply_op(W, op, lineage)
                Rm = apply_op(Rm, op, lineage)
        c.count('evaluations'); c.count('traces'); c.count('transitions', len(hist))
    except Exception as e:
        c.violation(key + 'exception', 'history %s raised %r' % (''.join(hist), e), case)
        return
    try:
        ow, orf = observe(W), observe(Rm)
    except Exception as e:
        c.violation(key + 'observe-exception', 'observing after history %s raised %r' % (''.join(hist), e), case)
        return
    d = diff(orf, ow)
    if d:
        c.violation(key + 'differs/' + d.split('/')[1].split('[')[0].split(':')[0], 'after %s the copy differs from the same model without copying: %s' % (''.join(hist), d), case)
    # independence: editing one object leaves the other unchanged
    if keep is not None and hist[-1] in 'PD':
        try:
            before = observe(W)
            apply_op(keep, 'E', lineage)
            after = observe(W)
            d = diff(before, after)
            if d:
                c.violation(key + 'not-independent/source-edit', 'editing the source changed the copy: %s' % d, case)
            before = observe(keep)
            apply_op(W, 'E', lineage)
            after = observe(keep)
            d = diff(before, after)
            if d:
                c.violation(key + 'not-independent/copy-edit', 'editing the copy changed the source: %s' % d, case)
        except Exception as e:
            c.violation(key + 'independence-exception', 'editing after %s raised %r' % (''.join(hist), e), case)
    c.nontrivial((kind, name, ''.join(hist)))
    if len(c.samples) < 1 and len(hist) == 3:
        c.sample(dict(kind=kind, model=name, history=''.join(hist), observed_keys=sorted(ow.keys())))


def drain_queue(q, nr, ncols):
    """slot times and contents of a queue, read from a copy"""
    if q is None:
        return None
    qq = q.py_copy()
    out = []
    for _ in range(ncols):
        z = np.zeros(nr)
        t = qq.py_get_next_queue_time()
        qq.py_get_next_reactions(z)
        out.append([float(t)] + z.tolist())
        qq.py_advance_time()
    return out


def check_results(c, item):
    """simulation results, cell states and lineages survive pickling (and deep copy) with data and links intact"""
    from bioscrape.simulator import py_simulate_model, VolumeCellState, DelayVolumeCellState, ArrayDelayQueue
    from bioscrape.types import Schnitz, Lineage, ExperimentalLineage, Volume
    from bioscrape.lineage import LineageVolumeCellState, py_SimulateCellLineage
    import bioscrape.random as br
    what, how = item
    c.count('states'); c.count('evaluations'); c.count('traces'); c.count('transitions')
    cp = (lambda o: pickle.loads(pickle.dumps(o))) if how == 'pickle' else copy.deepcopy
    key = 'C17/result/%s/' % what
    case = dict(what=what, how=how)
    try:
        if what in ('SSAResult', 'VolumeSSAResult', 'DelaySSAResult', 'DeterministicResult'):
            m = to_model(plain_specs()['delay_fixed'])
            kw = {'SSAResult': dict(stochastic=True), 'VolumeSSAResult': dict(stochastic=True, volume=2.0),
                  'DelaySSAResult': dict(stochastic=True, delay=True), 'DeterministicResult': dict(stochastic=False)}[what]
            br.py_seed_random(5)
            r = py_simulate_model(TIMES, Model=m, return_dataframe=False, **kw)
            r2 = cp(r)
            a = [arr(r.py_get_timepoints()), arr(r.py_get_result())] + ([arr(r.py_get_volume())] if what == 'VolumeSSAResult' else [])
            b = [arr(r2.py_get_timepoints()), arr(r2.py_get_result())] + ([arr(r2.py_get_volume())] if what == 'VolumeSSAResult' else [])
            if what == 'DelaySSAResult':
                a.append(drain_queue(r.py_get_delay_queue(), 3, len(TIMES)))
                b.append(drain_queue(r2.py_get_delay_queue(), 3, len(TIMES)))
        elif what == 'ArrayDelayQueue-advanced-empty':
            # a queue that was used (advanced past the wrap-around) and is empty when it is copied: its clock and ring position survive;
            # what is added to the copy afterwards is delivered when it would have been in the original
            q = ArrayDelayQueue.setup_queue(2, 3, 0.5)
            q.py_add_reaction(0.5, 1, 2.0)
            for _ in range(7):
                q.py_advance_time()
            q2 = cp(q)
            for qq_ in (q, q2):
                qq_.py_add_reaction(qq_.py_get_next_queue_time() + 0.5, 0, 3.0); qq_.py_add_reaction(qq_.py_get_next_queue_time() + 1.0, 1, 4.0)
            a, b = drain_queue(q, 2, 3), drain_queue(q2, 2, 3)
        elif what in ('ArrayDelayQueue', 'ArrayDelayQueue-advanced'):
            q = ArrayDelayQueue.setup_queue(3, 4, 0.5)
            q.py_add_reaction(1.0, 0, 3.0); q.py_add_reaction(2.0, 1, 5.0); q.py_add_reaction(1.5, 2, 2.0)
            if what.endswith('advanced'):
                for _ in range(5):          # more advances than reactions and than slots: the ring has wrapped
                    q.py_advance_time()
                q.py_add_reaction(q.py_get_next_queue_time() + 1.0, 1, 4.0); q.py_add_reaction(q.py_get_next_queue_time(), 2, 1.0)
                # and something distinct in every slot of every reaction (the wrapped part of the ring included)
                for r_ in range(3):
                    for j_ in range(4):
                        q.py_add_reaction(q.py_get_next_queue_time() + 0.5 * j_, r_, 1.0 + 10 * r_ + j_)
            q2 = cp(q)
            a, b = drain_queue(q, 3, 4), drain_queue(q2, 3, 4)
        elif what in ('VolumeCellState', 'DelayVolumeCellState', 'LineageVolumeCellState', 'LineageVolumeCellState-time0', 'LineageVolumeCellState-dead'):
            if what == 'VolumeCellState':
                o = VolumeCellState(time=1.5, state=np.array([1.0, 2.0, 3.0]), volume=2.5)
            elif what == 'DelayVolumeCellState':
                q = ArrayDelayQueue.setup_queue(2, 3, 0.5)
                q.py_add_reaction(1.0, 1, 1.0)
                for _ in range(4):
                    q.py_advance_time()
                q.py_add_reaction(q.py_get_next_queue_time() + 0.5, 0, 2.0); q.py_add_reaction(q.py_get_next_queue_time(), 1, 1.0)
                for r_ in range(2):
                    for j_ in range(3):
                        q.py_add_reaction(q.py_get_next_queue_time() + 0.5 * j_, r_, 1.0 + 10 * r_ + j_)
                o = DelayVolumeCellState(time=1.5, state=np.array([1.0, 2.0, 3.0]), volume=2.5, queue=q)
            elif what == 'LineageVolumeCellState-dead':
                o = LineageVolumeCellState(v0=0.9, t0=0.25, state=np.array([5.0, 0.0, 1.0]), volume=1.7, time=2.0, divided=-1, dead=2)
            elif what == 'LineageVolumeCellState-time0':
                # current time exactly 0 with an earlier birth time (a burn-in that ends at t = 0)
                # (set through the setters, as the simulators do: the object that is copied must itself be at t = 0)
                o = LineageVolumeCellState(v0=1.2, t0=-2.0, state=np.array([0.0, 2.0, 3.0]))
                o.py_set_volume(2.5); o.py_set_time(0.0)
                if o.py_get_time() != 0.0 or o.py_get_initial_time() != -2.0:
                    raise RuntimeError('harness: cell state not at t = 0')
            else:
                o = LineageVolumeCellState(v0=1.2, t0=0.5, state=np.array([1.0, 2.0, 3.0]), volume=2.5, time=1.5, divided=1, dead=-1)
            o2 = cp(o)
            a = [o.py_get_time(), o.py_get_volume(), arr(o.py_get_state())]
            b = [o2.py_get_time(), o2.py_get_volume(), arr(o2.py_get_state())]
            if what.startswith('LineageVolumeCellState'):
                a += [o.py_get_initial_volume(), o.py_get_initial_time()]
                b += [o2.py_get_initial_volume(), o2.py_get_initial_time()]
                # the fate flags have no getters: read them from the state the object hands to pickle (divided, dead)
                a += [int(v_) for v_ in o.__reduce__()[1][5:7]]
                b += [int(v_) for v_ in o2.__reduce__()[1][5:7]]
                o3 = cp(o2)                                   # a copy of the copy as well (an odd/even number of generations)
                b2 = [o3.py_get_time(), o3.py_get_volume(), arr(o3.py_get_state()), o3.py_get_initial_volume(), o3.py_get_initial_time()] + [int(v_) for v_ in o3.__reduce__()[1][5:7]]
                if diff(a, b2) and not diff(a, b):
                    b = b2
            if what == 'DelayVolumeCellState':
                a.append(drain_queue(o.py_get_delay_queue(), 2, 3)); b.append(drain_queue(o2.py_get_delay_queue(), 2, 3))
            # independence
            o2.py_get_state()[0] = 99.0
            if o.py_get_state()[0] == 99.0:
                c.violation(key + 'not-independent', 'the copied cell state shares its state array with the original', case)
        elif what in ('Schnitz', 'Lineage', 'ExperimentalLineage', 'SimulatedLineage'):
            if what == 'SimulatedLineage':
                m = lineage_variants()['vol_linear+div_time']()
                br.py_seed_random(31)
                with warnings.catch_warnings():
                    warnings.simplefilter('ignore')
                    lin = py_SimulateCellLineage(np.linspace(0, 1.5, 13), Model=m)
            else:
                lin = ExperimentalLineage({'A': 0, 'B': 1}) if what == 'ExperimentalLineage' else Lineage()
                s0 = Schnitz(np.array([0.0, 0.5]), np.array([[1.0, 2.0], [3.0, 4.0]]), np.array([1.0, 1.5]))
                s1 = Schnitz(np.array([0.5, 1.0]), np.array([[1.0, 2.0], [2.0, 2.0]]), np.array([0.7, 0.9]))
                s2 = Schnitz(np.array([0.5, 1.0]), np.array([[2.0, 2.0], [5.0, 1.0]]), np.array([0.8, 1.1]))
                s1.py_set_parent(s0); s2.py_set_parent(s0); s0.py_set_daughters(s1, s2)
                for s in (s0, s1, s2):
                    lin.py_add_schnitz(s)
            if what == 'Schnitz':
                s0c = cp(lin.py_get_schnitz(0))
                l2 = Lineage()
                l2.py_add_schnitz(s0c)
                for dtr in s0c.py_get_daughters():
                    l2.py_add_schnitz(dtr)
                a, b = lineage_struct(lin), lineage_struct(l2)
            else:
                l2 = cp(lin)
                a, b = lineage_struct(lin), lineage_struct(l2)
                if what == 'ExperimentalLineage':
                    a.append(lin.py_get_species_index('B')); b.append(l2.py_get_species_index('B'))
        else:
            raise ValueError(what)
    except Exception as e:
        c.violation(key + 'exception', '%s of a %s raised %r' % (how, what, e), case)
        return
    d = diff(a, b)
    if d:
        c.violation(key + 'differs', '%s of a %s changed it: %s' % (how, what, d), case)
    c.nontrivial((what, how))


def run(ctx):
    L = 2 if ctx.quick else 3
    hists = []
    for n in range(1, L + 1):
        for h in itertools.product(OPS, repeat=n):
            if 'P' in h or 'D' in h:
                hists.append(h)
    items = []
    plain = list(plain_specs())
    lin = list(lineage_variants())
    for name in plain:
        for h in hists:
            if ctx.quick and len(h) == 2 and name not in ('everything', 'rule_assign_param', 'delay_gamma', 'general_terms1') and h[0] not in 'PD':
                continue
            items.append(('plain', name, h))
        # longer histories around a second / third initialisation (both tiers; models that carry delays and the full model)
        if name.startswith('delay') or name == 'everything':
            for h in (('F', 'I', 'P'), ('F', 'S', 'P'), ('F', 'I', 'D'), ('E', 'I', 'F', 'I', 'P'), ('F', 'I', 'E', 'S', 'D'), ('I', 'F', 'I', 'P', 'S', 'P')):
                if h not in hists:
                    items.append(('plain', name, h))
    for name in lin:
        for h in hists:
            if 'F' in h:
                continue        # (F is E for lineage models)
            if len(h) == 3 and (h.count('S') + h.count('E') > 1):
                continue
            if ctx.quick and len(h) == 2 and name not in ('events', 'split_duplicate', 'vol_ode+div_general') and h[0] not in 'PD':
                continue
            items.append(('lineage', name, h))
    pmap(check_model, items, ctx, nshards=256)
    res = [(w, how) for w in ('SSAResult', 'VolumeSSAResult', 'DelaySSAResult', 'DeterministicResult', 'VolumeCellState', 'DelayVolumeCellState',
                              'LineageVolumeCellState', 'LineageVolumeCellState-time0', 'LineageVolumeCellState-dead', 'ArrayDelayQueue', 'ArrayDelayQueue-advanced', 'ArrayDelayQueue-advanced-empty', 'Schnitz', 'Lineage', 'ExperimentalLineage', 'SimulatedLineage') for how in ('pickle', 'deepcopy')]
    pmap(check_results, res, ctx, nshards=len(res))
    ctx.bounds = dict(history_length=L, plain_models=len(plain), lineage_models=len(lin), histories=len(hists), cases=len(items), result_objects=len(res))
    ctx.rule = ('E2+E3: one plain model per member type (every propensity class, two general rates that together contain every Term node class, '
                'every delay, every rule type/frequency) and one carrying all of them; lineage models for every volume rule / volume event / '
                'division rule / division event / death rule / death event type and every LineageVolumeSplitter mode. Every history up to the '
                'length bound over {pickle, deepcopy, initialise, simulate, edit, edit that adds a delayed reaction} that contains a copy (plus six histories of length 3-6 around a second and third initialisation for the models with delays) is applied; the result is compared with '
                'the same history without the copies: dictionaries, both matrices, every propensity in 4 forms at 6 states (H2), delays under '
                'one scripted stream, rule behaviour, seeded simulation in every mode (bit-equal), seeded and scripted lineages incl. parent / '
                'daughter structure; independence by editing either object. Result objects and cell states: pickle and deepcopy of each class. '
                'states = (object, history) pairs.')
    ctx.assumptions = ['interfaces are not picklable by construction and not part of the claim']


def replay(ctx, case):
    if 'what' in case:
        check_results(ctx, (case['what'], case['how']))
    else:
        check_model(ctx, (case['kind'], case['name'], tuple(case['history'])))
