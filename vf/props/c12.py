"""C12 - writing a model to SBML and reading it back preserves its behaviour (engine E2)."""
import os, re, tempfile, math, itertools
import numpy as np
from ..core import pmap
from ..modelspec import to_model, state_vector
from ..util import Stream
from .. import sbmlfam as FAM

PTS = [dict(a=2.0, b=3.0, c=1.0), dict(a=0.0, b=1.0, c=4.0), dict(a=5.0, b=0.0, c=2.0), dict(a=1.0, b=1.0, c=1.0), dict(a=3.0, b=6.0, c=0.0),
       dict(a=7.0, b=2.0, c=3.0)]
VOL = 2.5
DELAY_SCRIPT = [0.31, 0.77, 0.52, 0.13, 0.9, 0.44, 0.6, 0.25, 0.8]


def tmp():
    fd, path = tempfile.mkstemp(suffix='.xml', prefix='c12_', dir='/dev/shm' if os.path.isdir('/dev/shm') else None)
    os.close(fd)
    return path


def states_for(names):
    out = []
    for pt in PTS:
        vals = [pt['a'], pt['b'], pt['c'], 0.5 * pt['a'] + 1, pt['b'] + 2]
        out.append({n: vals[i % 5] for i, n in enumerate(names)})
    return out


def check(c, item):
    import warnings
    from bioscrape.types import Model
    from bioscrape.simulator import ModelCSimInterface
    sp, stochastic = item
    c.count('states')
    parts = sp['name'].split('/')
    key = 'C12/%s/' % parts[0]
    if parts[0] == 'general':
        key = 'C12/general/%s/' % parts[1]
    case = dict(spec=sp, stochastic=stochastic)
    path = tmp(); path2 = tmp()
    try:
        with warnings.catch_warnings():
            warnings.simplefilter('ignore')
            if sp.get('after_failed_create'):
                from .c14 import failed_create_model
                m = failed_create_model(sp)       # create_reaction calls that raised in between: the written model is the accepted one
            else:
                m = to_model(sp) if not sp.get('shared_delay_dict') else shared_delay_model(sp)
            try:
                # the generated model id comes from numpy's global generator: every write of every model of this run gets the SAME id
                # (anything keyed on that id - a cache of parsed documents, say - must not confuse two models)
                np.random.seed(20260927)
                m.write_sbml_model(path2, stochastic_model=(not stochastic))      # the other form first, to the second path (overwritten below)
                np.random.seed(20260927)
                m.write_sbml_model(path, stochastic_model=stochastic)
                np.random.seed(20260927)
                m.write_sbml_model(path2, stochastic_model=np.bool_(stochastic))
            except Exception as e:
                fr = '/freq-' + type(sp['rules'][0]['freq']).__name__ if sp.get('rules') else ''
                c.violation(key + 'write-exception' + fr, 'writing a model with valid identifiers raised %r' % e, case)
                return
            blank = lambda t: re.sub(r'bioscrape_generated_model_\d+', 'bioscrape_generated_model_N', t)
            if blank(open(path).read()) != blank(open(path2).read()):
                c.violation(key + 'write-twice', 'writing the same model twice gives different documents', case)
            try:
                m2 = Model(sbml_filename=path)
            except Exception as e:
                c.violation(key + 'read-exception', 'bioscrape cannot read back its own file: %r' % e, case)
                return
        c.count('evaluations'); c.count('transitions')
        names = sp['species']
        # species and values
        d1, d2 = m.get_species_dictionary(), m2.get_species_dictionary()
        if set(d1) != set(d2) or any(abs(float(d1[s]) - float(d2[s])) > 1e-12 * max(abs(float(d1[s])), abs(float(d2[s]))) for s in d1):
            c.violation(key + 'species', 'species %s became %s' % (d1, d2), case)
            return
        p1, p2 = m.get_parameter_dictionary(), m2.get_parameter_dictionary()
        for k, v in p1.items():
            k2 = k[1:] if k.startswith('_') else k
            if k2 not in p2 or abs(float(p2[k2]) - float(v)) > 1e-12 * max(abs(float(p2[k2])), abs(float(v))):
                c.violation(key + 'parameter', 'parameter %s=%r became %r' % (k, v, p2.get(k2)), case)
        # stoichiometry aligned by species name
        o1, o2 = m.get_species_list(), m2.get_species_list()
        perm = [o2.index(s) for s in o1]
        for what, a1, a2 in (('immediate', m.py_get_update_array(), m2.py_get_update_array()),
                             ('delayed', m.py_get_delay_update_array(), m2.py_get_delay_update_array())):
            a2 = np.asarray(a2)
            if a2.shape != np.asarray(a1).shape or not np.array_equal(np.asarray(a1), a2[perm, :]):
                c.violation(key + what + '-stoichiometry', '%s stoichiometry %s became %s (species %s / %s)' % (
                    what, np.asarray(a1).tolist(), a2.tolist(), o1, o2), case)
                return
        # rate laws in deterministic, stochastic and volume form
        pr1, pr2 = m.get_propensities(), m2.get_propensities()
        v1, v2 = m.get_parameter_values(), m2.get_parameter_values()
        nontrivial = False
        for x in states_for(names):
            x1, x2 = state_vector(m, x), state_vector(m2, x)
            for ri in range(len(pr1)):
                for form in ('det', 'stoch', 'vol', 'stochvol'):
                    try:
                        if form == 'det':
                            a, b = pr1[ri].py_get_propensity(x1, v1, 0.5), pr2[ri].py_get_propensity(x2, v2, 0.5)
                        elif form == 'stoch':
                            a, b = pr1[ri].py_verif_get_stochastic_propensity(x1, v1, 0.5), pr2[ri].py_verif_get_stochastic_propensity(x2, v2, 0.5)
                        elif form == 'vol':
                            a, b = pr1[ri].py_get_volume_propensity(x1, v1, VOL, 0.5), pr2[ri].py_get_volume_propensity(x2, v2, VOL, 0.5)
                        else:
                            a, b = pr1[ri].py_verif_get_stochastic_volume_propensity(x1, v1, VOL, 0.5), pr2[ri].py_verif_get_stochastic_volume_propensity(x2, v2, VOL, 0.5)
                    except Exception as e:
                        c.violation(key + 'rate-exception', 'evaluating reaction %d (%s form) raised %r' % (ri, form, e), case)
                        return
                    c.count('evaluations'); c.count('transitions')
                    if math.isfinite(a) and a != 0:
                        nontrivial = True
                    if not ((math.isnan(a) and math.isnan(b)) or a == b or abs(a - b) <= 1e-10 * max(abs(a), abs(b))):
                        c.violation(key + 'rate-' + form, 'reaction %d %s rate %r became %r at %s' % (ri, form, a, b, x), dict(case, x=x))
                        return
        # delays: class and parameters (same scripted stream -> same delay)
        dl1, dl2 = m.get_delays(), m2.get_delays()
        for ri in range(len(dl1)):
            if type(dl1[ri]).__name__ != type(dl2[ri]).__name__:
                c.violation(key + 'delay-type', 'reaction %d delay %s became %s' % (ri, type(dl1[ri]).__name__, type(dl2[ri]).__name__), case)
                continue
            with Stream(DELAY_SCRIPT):
                a = dl1[ri].py_get_delay(state_vector(m, states_for(names)[0]), v1)
            with Stream(DELAY_SCRIPT):
                b = dl2[ri].py_get_delay(state_vector(m2, states_for(names)[0]), v2)
            c.count('evaluations'); c.count('transitions')
            if abs(a - b) > 1e-12 * (1 + abs(a)):
                c.violation(key + 'delay-parameters', 'reaction %d delay %r became %r under the same random stream' % (ri, a, b), case)
        # rules: behaviour through the interface, at the firing conditions
        if sp.get('rules'):
            i1, i2 = ModelCSimInterface(m), ModelCSimInterface(m2)
            i1.py_set_dt(0.25); i2.py_set_dt(0.25)
            p1v, p2v = np.array(v1).copy(), np.array(v2).copy()
            for x in states_for(names)[:4]:
                ts = [0.0, 0.5, 0.75]
                for r_ in sp['rules']:
                    try:
                        ts.append(float(r_['freq']))        # the exact firing time of a timed rule
                    except (TypeError, ValueError):
                        pass
                for t in sorted(set(ts)):
                    for step in (True, False):
                        x1, x2 = state_vector(m, x), state_vector(m2, x)
                        v1[:] = p1v; v2[:] = p2v
                        i1.py_apply_repeated_rules(x1, t, step); i2.py_apply_repeated_rules(x2, t, step)
                        c.count('evaluations'); c.count('transitions')
                        s1 = {s: x1[m.get_species2index()[s]] for s in names}
                        s2 = {s: x2[m2.get_species2index()[s]] for s in names}
                        pp1 = {k: v1[i] for k, i in m.get_params2index().items() if k in sp['params']}
                        pp2 = {k: v2[i] for k, i in m2.get_params2index().items() if k in sp['params']}
                        if any(abs(s1[s] - s2[s]) > 1e-12 * (1 + abs(s1[s])) for s in names) or \
                           any(abs(pp1[k] - pp2.get(k, float('nan'))) > 1e-12 * (1 + abs(pp1[k])) for k in pp1):
                            fr = '+'.join(str(r.get('freq')) for r in sp['rules'])
                            v1[:] = p1v; v2[:] = p2v
                            c.violation(key + 'rule-behaviour', 'rules %s at t=%s rule_step=%s: original gives %s %s, reloaded gives %s %s' % (
                                fr, t, step, s1, pp1, s2, pp2), dict(case, x=x, t=t))
                            return
            v1[:] = p1v; v2[:] = p2v
            if len(m2.get_rules()) != len(sp['rules']):
                c.violation(key + 'rule-count', '%d rules became %d' % (len(sp['rules']), len(m2.get_rules())), case)
        if nontrivial:
            c.nontrivial(repr((sp['reactions'], sp.get('rules'), stochastic)))
        if len(c.samples) < 2 and parts[0] in ('multi', 'rules'):
            c.sample(dict(model=sp['name'], reactions=sp['reactions'], rules=sp.get('rules'), reloaded_species_order=o2))
    finally:
        for p in (path, path2):
            if os.path.exists(p):
                os.remove(p)


def shared_delay_model(sp):
    """the caller re-uses ONE delay-parameter dictionary object for successive create_reaction calls, changing the value in between"""
    from ..modelspec import reaction_tuple
    m = to_model(dict(sp, reactions=[]))
    shared = {}
    for r in sp['reactions']:
        t = list(reaction_tuple(r))
        if len(t) == 8:
            shared.clear(); shared.update(t[7])
            t[7] = shared
        m.create_reaction(*t)
    m.py_initialize()
    return m


def shared_delay_specs():
    from ..nets import spec, ma
    x0 = {'A': 2.0, 'B': 3.0, 'C': 1.5}
    out = []
    for typ, vals in (('fixed', [dict(delay=1.0), dict(delay=2.5), dict(delay=4.0)]),
                      ('gaussian', [dict(mean=5.0, std=0.2), dict(mean=9.0, std=0.5)]),
                      ('gamma', [dict(k=2.0, theta=0.1), dict(k=3.5, theta=0.4)])):
        rxs = []
        for i, v in enumerate(vals):
            rxs.append(dict(ma([FAM.SP[i % 3]], [], 0.5 + i), delay=dict(v, type=typ, reactants=[], products=[FAM.SP[(i + 1) % 3]])))
        s_ = spec('shared-delay-dict/' + typ, FAM.SP, x0, rxs, FAM.PARAMS)
        s_['shared_delay_dict'] = True
        out.append(s_)
    return out


def after_failed_specs():
    from ..nets import spec, ma
    from ..nets import hill as hill_
    x0 = {'A': 2.0, 'B': 3.0, 'C': 1.5}
    out = []
    for rx in ([ma(['A', 'B'], ['C'], 'kf'), ma(['C'], ['A', 'A'], 0.6), ma(['A', 'A'], ['B'], 0.3)],
               [dict(ma(['A'], ['B'], 'kf'), delay=dict(type='fixed', delay='tau', reactants=[], products=['C'])), ma(['C'], [], 0.6), hill_('hillnegative', [], ['A'], 'kf', 'KK', 'nn', 'B')]):
        s_ = spec('massaction/after-failed-create', FAM.SP, x0, rx, FAM.PARAMS)
        s_['after_failed_create'] = True
        out.append(s_)
    return out


def run(ctx):
    specs = FAM.single_reaction_specs(ctx.tier) + FAM.rule_specs(ctx.tier) + FAM.multi_specs(ctx.tier) + shared_delay_specs() + FAM.big_specs(ctx.tier) + FAM.magnitude_specs() + FAM.short_name_specs() + after_failed_specs()
    items = [(s, st) for s in specs for st in (False, True)]
    pmap(check, items, ctx, nshards=256)
    ctx.bounds = dict(models=len(specs), round_trips=len(items))
    ctx.rule = ('E2: the model family of C14 plus delays (fixed / Gaussian / Gamma x numeric / named parameters x delayed reactant and product '
                'lists of length 0..2), every rule set of <= 2 rules from {additive, assignment to species, assignment to parameter} x '
                '{repeated, start, dt, "0.5", 0.5, 0, 0.0}, models whose delayed reactions were created with one re-used delay-parameter dictionary, and ordered triples from a 7-reaction menu over species whose sort order differs from '
                'their declaration order, and rotations of a 16-reaction menu (6..16 reactions, every propensity and delay type, 14 named parameters, up to 4 rules) over 8 species; each written (deterministic and stochastic export) and read back by the real code. Compared: species '
                'and values, parameter values, both stoichiometric matrices aligned by name, every rate in deterministic / stochastic / volume '
                '/ stochastic-volume form at 6 states (H2), delay class and the delay drawn under one scripted stream, rule behaviour through '
                'the interface at t in {0, 0.5, 0.75} with and without rule_step, and that writing twice gives the same text up to the model id. '
                'states = round trips; non-trivial = a non-zero rate somewhere.')
    ctx.assumptions = ['names are valid SBML identifiers', 'ODE rules are outside the property (they are written as rate rules)']


def replay(ctx, case):
    check(ctx, (case['spec'], case['stochastic']))
