"""C05 - stochastic simulation samples the chemical master equation exactly (engine E1)."""
import numpy as np
from ..core import pmap
from .. import explore as EXP
from .. import e1
from ..nets import ssa_networks, big_networks, scale_networks, reachable
from ..ref import ssa as RS

GRIDS = {
    'u3': [0.0, 0.5, 1.0],
    'u5': [0.0, 0.25, 0.5, 0.75, 1.0],
    'nu4': [0.0, 0.25, 1.0, 1.25],
    'u2': [0.0, 0.5],
    'u11': [0.125 * i for i in range(11)],
    'fine33': [0.03125 * i for i in range(33)],
}


def configs(tier):
    out = []
    if tier == 'quick':
        params = [(2, 1.5, 0.5)]
        names = None
        grids = ['u3', 'nu4']
        bound = 3
    else:
        params = [(1, 1.5, 0.5), (2, 1.5, 0.5), (3, 0.7, 2.0)]
        names = None
        grids = ['u3', 'u5', 'nu4']
        bound = 3
    for n0, k1, k2 in params:
        for sp in ssa_networks(n0, k1, k2):
            for g in grids:
                for safe in (False, True):
                    out.append(dict(spec=sp, grid=g, safe=safe, bound=bound, kind='run', route='sim'))
                    if g == 'u3' or tier == 'thorough':
                        out.append(dict(spec=sp, grid=g, safe=safe, bound=2, kind='run', route='entry'))
                        # the same model reached through edits (rejected calls in between), start state set through the Model
                        out.append(dict(spec=sp, grid=g, safe=safe, bound=2, kind='run', route='edited'))
            for safe in (False, True):
                out.append(dict(spec=sp, grid='u3', safe=safe, bound=2, kind='bfs', start_repr='strided' if safe else 'int'))
            # the same time values handed over as a strided view / a table column (the gaps hold other plausible times)
            for route, how, safe in (('sim', 'strided', False), ('sim', 'column', True), ('entry', 'column', False), ('entry', 'strided', True)):
                out.append(dict(spec=sp, grid='nu4', safe=safe, bound=2, kind='run', route=route, times_repr=how))
    # larger than the small alphabets: counts >= 50, 7 species / 8-10 channels, 11 and 33 time points
    for sp in big_networks():
        many = len(sp['reactions']) >= 8
        for g in (['u5', 'u11'] if tier == 'quick' else ['u3', 'u11', 'fine33']):
            if tier == 'quick' and g == 'u5' and not many:
                continue
            # the many-channel networks are explored to bound 2 on the short grid and to bound 1 on the long ones
            b = 1 if (many and g != 'u5' and (tier == 'quick' or g == 'fine33')) else 2
            for safe in (False, True):
                out.append(dict(spec=sp, grid=g, safe=safe, bound=b, kind='run', route='sim'))
                if tier == 'thorough' or safe:
                    out.append(dict(spec=sp, grid=g, safe=safe, bound=b, kind='run', route='entry'))
    for i, (sp, grid) in enumerate(scale_networks()):
        GRIDS['scale%d' % i] = grid
        for safe in (False, True):
            out.append(dict(spec=sp, grid='scale%d' % i, safe=safe, bound=3, kind='run', route='sim'))
            out.append(dict(spec=sp, grid='scale%d' % i, safe=safe, bound=2, kind='run', route='entry'))
    return out


def check_trace(c, impl, net, cfg, times, ref, x0=None, t0=0.0, first=[False]):
    if cfg.get('route') == 'entry':
        import warnings
        from bioscrape.simulator import py_simulate_model
        from ..util import Stream
        with warnings.catch_warnings():
            warnings.simplefilter('ignore')
            # a different model of the same shape (every reaction reversed) goes through the entry point first: whatever the entry
            # point or the simulator keeps between calls must not reach the run that follows
            if not hasattr(impl, 'decoy'):
                from ..modelspec import to_model
                rev = [dict(reactants=list(r_.get('products', [])), products=list(r_.get('reactants', [])), kind='massaction', k=(r_['k'] if isinstance(r_.get('k'), (int, float)) else 1.3)) for r_ in cfg['spec']['reactions']]   # same time scale as the model
                impl.decoy = to_model(dict(cfg['spec'], reactions=rev, rules=[]))
            with Stream([0.3, 0.6, 0.3, 0.6]):
                py_simulate_model(np.array(times, dtype=float), Model=impl.decoy, stochastic=True, safe=cfg['safe'], return_dataframe=False)
            with Stream(ref['us']) as st:
                res = py_simulate_model(impl.grid(times), Model=impl.model, stochastic=True, safe=cfg['safe'], return_dataframe=False)
        got = dict(rows=impl.rows(res.py_get_result()), consumed=st.consumed, overrun=st.overrun)
    else:
        got = impl.run_ssa(ref['us'], times, x0, t0, dt=times[1] - times[0])
    c.count('traces')
    c.count('evaluations')
    bad = e1.compare(ref, got)
    if bad:
        what, msg = bad
        key = 'C05/%s/%s/%s' % (('entry-' if cfg.get('route') == 'entry' else 'edited-' if cfg.get('route') == 'edited' else '') + ('safe' if cfg['safe'] else 'plain'), cfg['spec']['name'], what + ('-grid-as-' + cfg['times_repr'] if cfg.get('times_repr') else ''))
        c.violation(key, msg, dict(cfg=cfg, times=times, us=ref['us'], x0=x0, t0=t0,
                                   ref_rows=ref['rows'], impl_rows=got['rows']))
    return got


def run_config(c, cfg):
    sp = cfg['spec']
    impl = e1.Impl(sp, cfg['safe'], edited=(cfg.get('route') == 'edited'))
    impl.start_repr = cfg.get('start_repr', 'float')
    impl.times_repr = cfg.get('times_repr', 'plain')
    net = RS.Net(sp, 'stoch', cfg['safe'])
    states = set()
    outcomes = set()
    starts = [(None, 0.0, GRIDS[cfg['grid']])]
    if cfg['kind'] == 'bfs':
        # one-event exploration from every reachable state, at a grid time and inside an interval
        starts = []
        for x in reachable(sp, 40):
            xd = dict(zip(sp['species'], [float(v) for v in x]))
            starts.append((xd, 0.0, [0.0, 0.5, 1.0]))
            starts.append((xd, 0.125, [0.25, 0.5]))
    det_checked = False
    for x0, t0, times in starts:
        def factory():
            return RS.ssa(net, times, dt=times[1] - times[0], t0=t0, x0=x0)

        def on_trace(choices, menus, ref):
            nonlocal det_checked
            got = check_trace(c, impl, net, cfg, times, ref, x0, t0)
            if not det_checked:
                got2 = check_trace(type(c)(), impl, net, cfg, times, ref, x0, t0)
                if got2 != got:
                    c.harness_error('non-deterministic replay for %s' % sp['name'])
                det_checked = True
            for v in ref['visited']:
                states.add(v)
            c.count('transitions', len(choices))
            outcomes.add(tuple(map(tuple, ref['rows'])))
            if len(ref['us']) > 3 and len(c.samples) < 2:
                c.sample(dict(network=sp['name'], safe=cfg['safe'], times=times, us=ref['us'], rows=ref['rows'],
                              letters=[m.letters[ch].name for m, ch in zip(menus, choices)]))
        n, capped = EXP.explore(factory, cfg['bound'], on_trace)
    c.count('states', len(states))
    c.count('distinct_outcomes', len(outcomes))
    if len(outcomes) > 1:
        c.nontrivial((sp['name'], cfg['grid'], cfg['safe'], cfg['kind'], cfg.get('route'), str(sp['x0']), str([r.get('k') for r in sp['reactions']])))


def run(ctx):
    cfgs = configs(ctx.tier)
    ctx.bounds = dict(configs=len(cfgs), cost_bound=cfgs[0]['bound'], grids=GRIDS,
                      letter_costs='cross=0, fire(early/mid/late)=1, far=1, reaction mid-bucket=0, bucket edges=1')
    ctx.rule = ('E1: for every (network, rate/count alphabet member, grid, plain/safe interface) the choice tree of the '
                'reference direct-method sampler is explored to the cost bound (every waiting-time draw: cross / just after '
                'now / mid / just before the next grid time / far; every reaction draw: middle and both edges of every live '
                'bucket) and every complete trace is replayed on SSASimulator (directly, through py_simulate_model(stochastic=True), and on a model reached through edits with rejected create_reaction calls in between and its start state set through Model.set_species after the interface was built) under the scripted stream; plus the same '
                'exploration (bound 2) started from every reachable state, on and between grid times (the start state handed over as an int64 array or as a strided view); through the entry point every run is preceded by a run of a different model of the same shape; plus (bound 2) six larger networks (counts 50-200, seven species / eight channels, ten channels) on grids of 11 (thorough: 3, 11, 33) points, and (bound 3) three networks whose rates are of magnitude 1e-11 / 1e9 (grids scaled accordingly) or mix 1e-12 with 1. The time grid is also handed over as a strided view whose gaps hold the midpoints and as a table column next to shifted times (simulator objects and entry point); the conformance oracle is unchanged. states = distinct '
                '(state, grid index) pairs visited by the reference; transitions = draws; a configuration is non-trivial '
                'when its traces have more than one distinct outcome.')
    ctx.assumptions = ['uniform -> (waiting time, reaction) mapping of the direct method: tau = -ln(u)/Lambda, '
                       'reaction j iff u*Lambda falls in bucket j',
                       'time-independent propensities; scripted draws stay >= 1e-9 (relative) away from cell boundaries']
    pmap(run_config, cfgs, ctx, nshards=len(cfgs))


def replay(ctx, case):
    cfg = case['cfg']
    impl = e1.Impl(cfg['spec'], cfg['safe'])
    got = impl.run_ssa(case['us'], case['times'], case.get('x0'), case.get('t0', 0.0), dt=case['times'][1] - case['times'][0])
    ref = dict(us=case['us'], rows=case['ref_rows'])
    bad = e1.compare(ref, got)
    if bad:
        ctx.violation('C05/replay/' + bad[0], bad[1], case)
