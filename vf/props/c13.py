"""C13 - an imported SBML file has the semantics of the SBML document (engine E2).
Documents are generated with libsbml only (never by bioscrape's writer)."""
import itertools, os, tempfile, math
import numpy as np
import libsbml as L
from ..core import pmap
from ..ref import sbml_eval as SE

STATES = [dict(X=2.0, Y=3.0, Z=1.0, W=4.0), dict(X=0.5, Y=1.5, Z=2.5, W=0.25), dict(X=5.0, Y=0.0, Z=1.0, W=2.0),
          dict(X=1.0, Y=1.0, Z=1.0, W=1.0), dict(X=3.0, Y=2.0, Z=0.5, W=7.0), dict(X=0.0, Y=4.0, Z=3.0, W=0.5)]


def make_doc(d):
    doc = L.SBMLDocument(3, 2)
    m = doc.createModel()
    m.setId('generated_by_libsbml')
    comp = m.createCompartment()
    comp.setId('cell'); comp.setConstant(True); comp.setSize(1.0); comp.setSpatialDimensions(3)
    for sid, amount, conc in d['species']:
        s = m.createSpecies()
        s.setId(sid); s.setCompartment('cell'); s.setConstant(False); s.setBoundaryCondition(False)
        s.setHasOnlySubstanceUnits(False)
        if amount is not None:
            s.setInitialAmount(float(amount))
        if conc is not None:
            s.setInitialConcentration(float(conc))
    for pid, val in d['params']:
        p = m.createParameter()
        p.setId(pid); p.setValue(float(val)); p.setConstant(not any(r[1] == pid for r in d.get('rules', [])))
    for rx in d['reactions']:
        r = m.createReaction()
        r.setId(rx['id']); r.setReversible(False)
        for sid, st in rx.get('reactants', []):
            sr = r.createReactant(); sr.setSpecies(sid); sr.setStoichiometry(float(st)); sr.setConstant(True)
        for sid, st in rx.get('products', []):
            sr = r.createProduct(); sr.setSpecies(sid); sr.setStoichiometry(float(st)); sr.setConstant(True)
        for sid in rx.get('modifiers', []):
            mr = r.createModifier(); mr.setSpecies(sid)
        kl = r.createKineticLaw()
        ast = L.parseL3Formula(rx['law'])
        assert ast is not None, rx['law']
        kl.setMath(ast)
        for pid, val in rx.get('locals', []):
            lp = kl.createLocalParameter()
            lp.setId(pid); lp.setValue(float(val))
    for kind, var, formula in d.get('rules', []):
        rule = m.createAssignmentRule() if kind == 'assignment' else m.createRateRule()
        rule.setVariable(var)
        ast = L.parseL3Formula(formula)
        assert ast is not None, formula
        rule.setMath(ast)
    return doc


def write(doc):
    # one path per worker process, rewritten for every document (a reader must go by the content, not by the path)
    path = os.path.join('/dev/shm' if os.path.isdir('/dev/shm') else tempfile.gettempdir(), 'c13_%d.xml' % os.getpid())
    text = L.writeSBMLToString(doc)
    return path, text


def ref_semantics(d, x):
    """reference: species/parameter values after assignment rules, and dx/dt per variable, at state x"""
    doc = make_doc(d)
    m = doc.getModel()
    env = {pid: float(v) for pid, v in d['params']}
    env.update({sid: float(x[sid]) for sid, _, _ in d['species']})
    # assignment rules (in the order given; generated documents chain them in dependency order)
    for kind, var, formula in d.get('rules', []):
        if kind == 'assignment':
            env[var] = SE.ev(L.parseL3Formula(formula), env)
    deriv = {sid: 0.0 for sid, _, _ in d['species']}
    for rx in d['reactions']:
        loc = dict(env)
        loc.update({pid: float(v) for pid, v in rx.get('locals', [])})
        rate = SE.ev(L.parseL3Formula(rx['law']), loc)
        for sid, st in rx.get('reactants', []):
            deriv[sid] -= st * rate
        for sid, st in rx.get('products', []):
            deriv[sid] += st * rate
    for kind, var, formula in d.get('rules', []):
        if kind == 'rate':
            deriv[var] = deriv.get(var, 0.0) + SE.ev(L.parseL3Formula(formula), env)
    return env, deriv


LAWS = [
    ('k1*X', 'linear'), ('k1*X*Y', 'bilinear'), ('k1*X^2', 'power'), ('k1*(X^2)^3/100', 'nested-power-left'),
    ('k1*X^(2^Y)/50', 'nested-power-right'), ('k1*exp(-X)', 'exp'), ('k1*ln(X+1)', 'ln'), ('abs(X-Y)', 'abs'),
    ('k1*X/(K+X)', 'rational'), ('k1*min(X,Y)', 'min'), ('max(X,2)*k1', 'max'), ('-(X-10)*k1', 'unary-minus'),
    ('k1*X - k2*Y + 20', 'difference'), ('(k1+k2)*X/(1+Y/K)', 'grouping'), ('k1*(X^2)^Y/50', 'nested-power-left-var'),
    ('k1*((X^2)^Y)^0.5/20', 'nested-power-triple-left'), ('k1*((X^K)^2)^(Y^2)/1000 + ((Y^2)^K)^2/500', 'nested-power-mixed'),
    ('k1*exp(-((X^2)^0.5)^Y/10)', 'nested-power-in-function'),
]


def documents(tier):
    out = []
    base_species = [('X', 2.0, None), ('Y', 3.0, None), ('Z', 0.0, None)]
    params = [('k1', 1.5), ('k2', 0.4), ('K', 2.0)]
    # 1. kinetic-law operators, stoichiometries 1..3 on both sides, modifier
    for law, tag in LAWS:
        for rs, ps in itertools.product((1, 2, 3), repeat=2):
            if tier == 'quick' and (rs, ps) not in ((1, 1), (2, 3), (3, 1)):
                continue
            out.append(dict(tag='law:' + tag, species=base_species, params=params, rules=[],
                            reactions=[dict(id='r1', reactants=[('X', rs)], products=[('Z', ps)], modifiers=['Y'], law=law)]))
    # 2. initial amount / concentration precedence
    for ax, cx in ((0.0, None), (2.5, None), (None, 0.0), (None, 1.5), (None, None), (2e-9, None), (None, 3e-10), (1e12, None)):
        sp = [('X', ax, cx), ('Y', 3.0, None), ('Z', None, 0.7)]
        out.append(dict(tag='init', species=sp, params=params, rules=[], both=None,
                        reactions=[dict(id='r1', reactants=[('X', 1)], products=[('Z', 1)], law='k1*X')]))
    for ax, cx in ((2.5, 4.0), (0.0, 4.0), (3.0, 0.0), (2e-9, 5.0), (1e-12, 0.5), (-0.0, 4.0), (1e-300, 2.0), (1e9, 3.0)):     # amounts that are tiny but not zero
        sp = [('X', ax, None), ('Y', 3.0, None), ('Z', None, 0.7)]
        out.append(dict(tag='init-both', species=sp, params=params, rules=[], both=('X', ax, cx),
                        reactions=[dict(id='r1', reactants=[('X', 1)], products=[('Z', 1)], law='k1*X')]))
    # 3. local parameters colliding with a global and with another reaction's local, both reaction orders
    rA = dict(id='rA', reactants=[('X', 1)], products=[('Y', 1)], law='k1*X', locals=[('k1', 7.0)])          # shadows the global k1
    rB = dict(id='rB', reactants=[('Y', 1)], products=[('Z', 1)], law='k1*Y')                                 # uses the global k1
    rC = dict(id='rC', reactants=[('Z', 1)], products=[('X', 2)], law='kl*Z', locals=[('kl', 0.3)])           # private local
    rD = dict(id='rD', reactants=[('X', 2)], products=[('Z', 1)], law='kl*X^2 + k2', locals=[('kl', 0.05)])   # same local name, other value
    rE = dict(id='rE', reactants=[('Y', 1)], products=[], law='k2*Y*K', locals=[('k2', 2.0), ('K', 0.5)])     # two shadowed globals
    for combo in itertools.permutations([rA, rB, rC, rD, rE], 3 if tier == 'quick' else 4):
        if tier == 'quick' and combo[0]['id'] > combo[-1]['id'] and combo[1]['id'] != 'rB':
            continue
        out.append(dict(tag='locals', species=base_species, params=params, rules=[], reactions=list(combo)))
    # 4. every sequence of <= 3 rules from {assignment->species, assignment->parameter, rate->species, rate->parameter}
    sp4 = [('X', 2.0, None), ('Y', 3.0, None), ('Z', 1.0, None), ('W', 4.0, None)]
    par4 = params + [('q', 0.5), ('g', 1.0)]
    menu = [('assignment', 'W', '0.1*X + Y'), ('assignment', 'q', '2*k2 + X/10'), ('rate', 'Z', 'k1 + 0.2*X'), ('rate', 'g', '0.3*Y')]
    rx4 = [dict(id='r1', reactants=[('X', 1)], products=[('Y', 1)], law='q*X'), dict(id='r2', reactants=[('Y', 1)], products=[('X', 1)], law='k2*Y')]
    for n in (0, 1, 2, 3):
        for seq in itertools.permutations(menu, n):
            out.append(dict(tag='rules:' + '+'.join(k[0][0] + ('s' if k[1] in ('W', 'Z') else 'p') for k in seq), species=sp4, params=par4,
                            rules=list(seq), reactions=rx4))
    # a local parameter with the same id and the same value as a global that a rule assigns (the local stays constant)
    for order in ((0, 1), (1, 0)):
        rxs = [dict(id='r1', reactants=[('X', 1)], products=[('Y', 1)], law='q*X', locals=[('q', 0.5)]),
               dict(id='r2', reactants=[('Y', 1)], products=[('X', 1)], law='q*Y')]
        for rules in ([('assignment', 'q', '2*k2 + X/10')], [('rate', 'g', '0.3*Y'), ('assignment', 'q', '2*k2 + X/10')]):
            out.append(dict(tag='locals-vs-ruled-global', species=sp4, params=par4, rules=rules, reactions=[rxs[i] for i in order]))
    # assignment rules whose right-hand side is a bare number (a parameter and a species target); they hold at every time
    for rules in ([('assignment', 'q', '7')], [('assignment', 'W', '2.5'), ('assignment', 'q', '0.75')], [('rate', 'Z', '0.4'), ('assignment', 'q', '7')]):
        out.append(dict(tag='rules:constant', species=sp4, params=par4, rules=rules, reactions=rx4))
    # one species referenced twice in the same list of a reaction (the stoichiometries add up): X + X -> Y, Y + 2 Y -> 3 X written as lists
    out.append(dict(tag='repeated-reference', species=sp4, params=par4, rules=[],
                    reactions=[dict(id='r1', reactants=[('X', 1), ('X', 1)], products=[('Y', 1)], law='k1*X*X'),
                               dict(id='r2', reactants=[('Y', 1), ('Y', 2)], products=[('X', 1), ('Z', 1), ('X', 2)], law='k2*Y')]))
    # two rules of the same kind in a row (state carried between iterations must not matter)
    extra = [('assignment', 'W', '0.1*X + Y'), ('rate', 'Z', 'k1 + 0.2*X'), ('rate', 'Y', '0.05*X'), ('assignment', 'q', '2*k2 + X/10')]
    for seq in itertools.permutations(extra, 3 if tier == 'quick' else 4):
        out.append(dict(tag='rules:mixed', species=sp4, params=par4, rules=list(seq), reactions=rx4))
    # rate rules whose right-hand side is negative, starts with a unary minus, or changes sign over the evaluation states
    # (a rate rule is a signed derivative, not a propensity: every term keeps its own sign)
    signed = ['-k1*X + k2', '-k1*X - k2', '-(k1*X + k2)', '-k1*X', 'k2 - k1*X', '-Z/k1 + k2*g', '-X', '-1', '-k1*X*Y - k2 + Z',
              '-(-k1*X) - k2', '(-k1)*X + k2', '-k1^2 + X', '- k1 + 0.2*X - 0.1*Y']
    for f in signed:
        for var in ('Z', 'g'):
            if var in f:
                continue
            for with_rx in (True, False):
                out.append(dict(tag='rules:signed-rate', species=sp4, params=par4, rules=[('rate', var, f)], reactions=rx4 if with_rx else []))
    for f1, f2 in (('-k1*X + k2', '-0.3*Y + q'), ('-k2 - k1*X', '-(X - Y)')):
        out.append(dict(tag='rules:signed-rate', species=sp4, params=par4,
                        rules=[('rate', 'Z', f1), ('assignment', 'q', '2*k2 + X/10'), ('rate', 'g', f2)], reactions=rx4))
    return out


def check(c, d):
    import warnings
    from bioscrape.types import Model
    from bioscrape.simulator import ModelCSimInterface
    c.count('states')
    doc = make_doc(d)
    path, text = write(doc)
    if d.get('both'):
        # libsbml keeps amount and concentration mutually exclusive through its API: patch the XML text
        sid, a, cval = d['both']
        import re
        text, npatched = re.subn(r'(<species id="%s"[^>]*?initialAmount="[^"]*")' % sid, r'\1 initialConcentration="%g"' % cval, text)
        if npatched != 1:
            c.harness_error('could not patch the species element of %s' % sid)
            return
    open(path, 'w').write(text)
    key = 'C13/%s%s/' % (d['tag'].split(':')[0], '-into-used-model' if d.get('route') else '')
    sub = d['tag'].split(':')[1] if ':' in d['tag'] else ''
    case = dict(doc=d)
    try:
        if d.get('both'):
            chk = L.readSBMLFromString(text)
            if chk.getNumErrors() > 0 or 'initialConcentration' not in text:
                c.count('skipped_both')
                return
        try:
            with warnings.catch_warnings():
                warnings.simplefilter('ignore')
                if d.get('route') == 'into-used-model':
                    # the document is read into a Model object that an earlier, rejected import was aimed at: a draft of the same
                    # document whose FIRST kinetic law uses a function bioscrape does not have (so nothing but species and
                    # parameters of the same names reached the Model before the rejection)
                    from bioscrape.sbmlutil import import_sbml
                    draft = L.readSBMLFromString(text)
                    kl = draft.getModel().getReaction(0).getKineticLaw()
                    kl.setMath(L.parseL3Formula('tanh(%s)' % L.formulaToL3String(kl.getMath())))
                    dpath = path + '.draft.xml'
                    L.writeSBMLToFile(draft, dpath)
                    m = Model()
                    try:
                        import_sbml(dpath, bioscrape_model=m, sbml_warnings=False)
                    except Exception:
                        pass
                    else:
                        c.count('draft_accepted')
                        return
                    finally:
                        try:
                            os.remove(dpath)
                        except OSError:
                            pass
                    m = import_sbml(path, bioscrape_model=m, sbml_warnings=False)
                else:
                    m = Model(sbml_filename=path, sbml_warnings=False)
        except Exception as e:
            c.count('rejected')
            c.tally('rejected_by_tag', d['tag'])
            return
        c.count('imported')
        species = m.get_species_list()
        sdict = m.get_species_dictionary()
        pdict = m.get_parameter_dictionary()
        c.count('evaluations'); c.count('transitions')
        # initial values: amount takes precedence when non-zero, else the concentration, else 0
        for sid, a, cv in d['species']:
            if d.get('both') and d['both'][0] == sid:
                a, cv = d['both'][1], d['both'][2]
            want = a if (a is not None and a != 0) else (cv if cv is not None else (a if a is not None else 0.0))
            if sid not in sdict or abs(float(sdict[sid]) - float(want)) > 1e-12:
                c.violation(key + 'initial-value', 'species %s imported with value %r, the document says amount=%r concentration=%r' % (
                    sid, sdict.get(sid), a, cv), case)
        for pid, v in d['params']:
            if pid not in pdict or abs(float(pdict[pid]) - v) > 1e-12:
                c.violation(key + 'global-parameter', 'global parameter %s imported as %r, document value %r' % (pid, pdict.get(pid), v), case)
        # rules: one repeated assignment per assignment rule, none for rate rules
        rules = m.get_rules()
        n_assign = sum(1 for r in d.get('rules', []) if r[0] == 'assignment')
        rep = [r for r in rules if r[0] == 'assignment']
        if len(rules) != n_assign or any((len(r) > 2 and r[2] not in ('repeated', 'repeat')) for r in rules):
            c.violation(key + 'rule-count',
                        'imported rules %s for a document with %d assignment rule(s) and %d rate rule(s)' % (
                            [(r[0], r[1].get('equation'), r[2] if len(r) > 2 else None) for r in rules], n_assign,
                            len(d.get('rules', [])) - n_assign), case)
        iface = ModelCSimInterface(m)
        iface.py_prep_deterministic_simulation()
        s2i = m.get_species2index()
        p2i = m.get_params2index()
        pvals0 = np.array(m.get_parameter_values(), dtype=float).copy()
        nontrivial = False
        for x in STATES:
            try:
                env, deriv = SE.ev and ref_semantics(d, x)
            except (ZeroDivisionError, ValueError, OverflowError, KeyError):
                continue
            st = np.zeros(len(s2i))
            for s, i in s2i.items():
                st[i] = x.get(s, 0.0)
            m.get_parameter_values()[:] = pvals0
            # (no document of this family depends on the time: the second half of the states is evaluated at a later time, where an
            # SBML assignment rule holds just as it does at time 0)
            t_eval = 0.0 if STATES.index(x) % 2 == 0 else 1.25
            iface.py_apply_repeated_rules(st, t_eval, True)
            dx = np.zeros(len(s2i))
            iface.py_calculate_deterministic_derivative(st, dx, t_eval)
            c.count('evaluations'); c.count('transitions')
            # rule-assigned values
            for kind, var, formula in d.get('rules', []):
                if kind != 'assignment':
                    continue
                got = st[s2i[var]] if var in s2i else (m.get_parameter_values()[p2i[var]] if var in p2i else None)
                if got is None or abs(got - env[var]) > 1e-9 * (1 + abs(env[var])):
                    c.violation(key + 'assignment-value', 'assignment rule %s = %s gives %r at %s, the document says %r' % (var, formula, got, x, env[var]), case)
            for sid, val in deriv.items():
                if any(r[0] == 'assignment' and r[1] == sid for r in d.get('rules', [])):
                    continue
                if sid not in s2i:
                    # a rate rule on a parameter: the import must make it a dynamic variable somehow
                    c.violation(key + 'rate-rule-on-parameter', 'rate rule variable %s does not evolve in the imported model (species %s)' % (sid, species), case)
                    continue
                got = dx[s2i[sid]]
                if abs(val) > 1e-12:
                    nontrivial = True
                if not math.isfinite(got) or abs(got - val) > 1e-9 * (1 + abs(val)):
                    what = 'derivative' + ('/' + sub if (sub and not d['tag'].startswith('rules')) else '')
                    c.violation(key + what, 'd%s/dt = %r at %s in the imported model, stoichiometry x kinetic law (+ rate rules) of the document gives %r' % (
                        sid, got, x, val), dict(case, x=x))
                    break
        m.get_parameter_values()[:] = pvals0
        if nontrivial:
            c.nontrivial(repr(d))
        if len(c.samples) < 2 and d['tag'].startswith('rules') and len(d['rules']) == 3:
            c.sample(dict(tag=d['tag'], rules=d['rules'], imported_rules=[(r[0], r[1]) for r in rules], species=species))
    finally:
        os.remove(path)


def run(ctx):
    docs = documents(ctx.tier)
    # every document with a reaction also through import_sbml(file, bioscrape_model=M) into a Model that a rejected import was aimed at
    docs = docs + [dict(d_, route='into-used-model') for d_ in docs if d_.get('reactions') and not d_.get('both')]
    pmap(check, docs, ctx, nshards=128)
    ctx.bounds = dict(documents=len(docs), states=len(STATES))
    ctx.rule = ('E2: SBML Level 3 documents built directly with libsbml: (1) 15 kinetic laws over + - * / ^ (nested powers in both '
                'associations) exp ln abs min max x reactant/product stoichiometries 1..3 x a modifier; (2) initial amount / concentration '
                'in every combination (both present by patching the XML, skipped if libsbml rejects it); (3) every ordered selection of '
                'reactions whose local parameters shadow a global, share a name with another reaction\'s local, or are private; (4) every '
                'sequence of <= 3 rules (and 3-4 of a mixed menu) over assignment/rate x species/parameter. Every document with a reaction is also read with import_sbml(file, bioscrape_model=M) into a Model at which a rejected import (a draft whose first law uses an unsupported function) was aimed before. Oracle: the document\'s own '
                'semantics (libsbml AST evaluated with local scoping; dx/dt = sum stoichiometry x law + rate rules) against the imported '
                'model\'s derivative after its repeated rules, at 6 states, plus species/parameter values and the rule list. Rate rules with negative, sign-changing and minus-led right-hand sides (species and parameter targets, with and without reactions) are part of the family. states = '
                'documents; non-trivial = non-zero derivative somewhere.')
    ctx.assumptions = ['documented subset: one compartment of size 1, no events / function definitions / initial assignments',
                       'a document that bioscrape refuses to import is counted, not reported (over-rejection is not this property)']


def replay(ctx, case):
    check(ctx, case['doc'])
