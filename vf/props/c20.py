"""C20 - the delay queue delivers each entry once, in order, at the nearest grid time (engine E3).

Explicit-state breadth-first search over operation histories on the real ArrayDelayQueue, with a dict-based
reference queue advanced in lock step.  A state is the history that reaches it (rebuilt by replay on a fresh
queue); states are merged on the canonical form (pending counts per reaction and relative slot, ring position =
number of advances modulo the ring length), which determines the queue's observable future because slot times
are exact binary fractions."""
import itertools
import numpy as np
from ..core import pmap
from ..util import Stream


class Ref:
    """pending[n][r]: occurrences queued for absolute slot n (time t0 + n*dt, n >= 1); nxt: earliest pending slot"""

    def __init__(self, nr, ncols, dt, t0):
        self.nr, self.ncols, self.dt, self.t0, self.nxt, self.p = nr, ncols, dt, t0, 1, {}

    def clone(self, clear=False):
        q = Ref(self.nr, self.ncols, self.dt, self.t0)
        q.nxt = self.nxt
        q.p = {} if clear else {n: dict(d) for n, d in self.p.items()}
        return q

    def next_time(self):
        return self.t0 + self.nxt * self.dt

    def add(self, time, r):
        import math
        pos = (time - self.t0) / self.dt + 0.5
        n = self.nxt + self.ncols - 1 if pos == math.inf else int(math.floor(pos))      # infinitely far ahead: beyond the horizon
        n = max(self.nxt, min(n, self.nxt + self.ncols - 1))
        self.p.setdefault(n, {})
        self.p[n][r] = self.p[n].get(r, 0) + 1

    def advance(self):
        d = self.p.pop(self.nxt, {})
        self.nxt += 1
        return [float(d.get(r, 0)) for r in range(self.nr)]

    def view(self):
        return [[float(self.p.get(n, {}).get(r, 0)) for r in range(self.nr)] for n in range(self.nxt, self.nxt + self.ncols)]

    def canon(self):
        return (tuple(map(tuple, self.view())), (self.nxt - 1) % self.ncols)


def fresh(shape):
    from bioscrape.simulator import ArrayDelayQueue
    nr, ncols, dt, t0, how = shape
    if how == 'ctor':
        q = ArrayDelayQueue(np.zeros((nr, ncols)), dt, t0)
    elif how == 'ctor-fortran':
        q = ArrayDelayQueue(np.zeros((nr, ncols), order='F'), dt, t0)               # the same empty array in other memory layouts
    elif how == 'ctor-transposed':
        q = ArrayDelayQueue(np.zeros((ncols, nr)).T, dt, t0)
    elif how == 'ctor-strided':
        q = ArrayDelayQueue(np.zeros((nr, 2 * ncols))[:, ::2], dt, t0)
    else:
        q = ArrayDelayQueue.setup_queue(nr, ncols, dt)
        q.py_set_current_time(t0)
    return q, Ref(nr, ncols, dt, t0)


def drain(q, nr, ncols):
    """(slot contents, slot times) read destructively"""
    out, times = [], []
    for _ in range(ncols):
        a = np.zeros(nr)
        times.append(q.py_get_next_queue_time())
        q.py_get_next_reactions(a)
        out.append([float(v) for v in a])
        q.py_advance_time()
    return out, times


def add_times(ref):
    nq, dt, nc = ref.next_time(), ref.dt, ref.ncols
    ts = [('past2', nq - 2 * dt), ('past0.3', nq - 0.3 * dt)]
    for k in range(nc):
        ts += [('slot%d' % k, nq + k * dt), ('slot%d-' % k, nq + k * dt - 0.3 * dt), ('slot%d+' % k, nq + k * dt + 0.3 * dt)]
    ts += [('beyond0.7', nq + (nc - 1) * dt + 0.7 * dt), ('beyond1', nq + nc * dt), ('beyond3', nq + (nc + 2) * dt)]
    # far beyond the horizon: more grid steps ahead than a 32-bit index holds, and an infinite delay
    ts += [('beyond2^32', nq + 2.0 ** 32 * dt + 3 * dt), ('infinite', float('inf'))]
    return ts


def ops_for(ref, total_cap):
    pend = int(sum(sum(s) for s in ref.view()))
    ops = [('adv',)]
    if pend < total_cap:
        for r in range(ref.nr):
            for name, t in add_times(ref):
                ops.append(('add', r, name))
    ops += [('copy',), ('clear_copy',)]
    # hand-over of a queue to a run that starts at another time: the pending slots keep their order and distance
    ops += [('retime', 'same'), ('retime', 'later'), ('retime', 'earlier')]
    if 0 < pend <= 3:
        for coins in itertools.product((0, 1), repeat=pend):
            for part in (0, 1):
                ops.append(('part', coins, part))
    return ops


def apply(q, ref, op, c, shape, hist):
    """apply op on the real queue and on the reference; check the step; return the (possibly new) pair"""
    def bad(what, msg):
        c.violation('C20/%s/%s' % (op[0], what), msg, dict(shape=shape, history=[list(map(str, h)) for h in hist + [op]]))
    if op[0] == 'adv':
        a = np.zeros(ref.nr)
        t_impl = q.py_get_next_queue_time()
        q.py_get_next_reactions(a)
        q.py_advance_time()
        t_ref = ref.next_time()
        exp = ref.advance()
        if [float(v) for v in a] != exp:
            bad('delivery', 'slot at time %s delivers %s, reference %s' % (t_ref, list(a), exp))
        if t_impl != t_ref or q.py_get_next_queue_time() != ref.next_time():
            bad('time', 'queue time %s -> %s, reference %s -> %s' % (t_impl, q.py_get_next_queue_time(), t_ref, ref.next_time()))
        return q, ref
    if op[0] == 'add':
        t = dict(add_times(ref))[op[2]]
        q.py_add_reaction(t, op[1], 1.0)
        ref.add(t, op[1])
        return q, ref
    if op[0] == 'retime':
        now = ref.next_time() - ref.dt
        t = {'same': now, 'later': now + 2.5, 'earlier': now - 1.0}[op[1]]
        q.py_set_current_time(t)
        ref.t0 = t + ref.dt - ref.nxt * ref.dt          # the earliest pending slot is now due at t + dt
        if q.py_get_next_queue_time() != ref.next_time():
            bad('time', 'after set_current_time(%s) the next slot is due at %s, expected %s' % (t, q.py_get_next_queue_time(), ref.next_time()))
        return q, ref
    if op[0] in ('copy', 'clear_copy'):
        q2 = q.py_copy() if op[0] == 'copy' else q.py_clear_copy()
        r2 = ref.clone(clear=(op[0] == 'clear_copy'))
        # independence: mutate the derived queue, the original must not change (and vice versa, by continuing on q2)
        q2.py_add_reaction(r2.next_time(), 0, 1.0)
        got, times = drain(q, ref.nr, ref.ncols)
        if got != ref.view():
            bad('source-changed', 'source queue after %s + edit of the result: %s, reference %s' % (op[0], got, ref.view()))
        q3 = fresh(shape)[0]   # rebuild the derived queue for the continuation (q was drained)
        return None, r2        # caller rebuilds by replay
    if op[0] == 'part':
        coins, part = op[1], op[2]
        p = 0.3
        script = [p / 2 if cbit else (1 + p) / 2 for cbit in coins]
        before = ref.view()
        with Stream(script) as st:
            parts = q.py_binomial_partition(p)
        if st.consumed != len(coins) or st.overrun:
            bad('coins', 'partition of %d pending occurrences used %d(+%d) coins' % (len(coins), st.consumed, st.overrun))
        # reference: coins are consumed slot by slot (ring storage order is not observable: compare totals per slot)
        v1, t1 = drain(parts[0].py_copy(), ref.nr, ref.ncols)
        v2, t2 = drain(parts[1].py_copy(), ref.nr, ref.ncols)
        src, _ = drain(q.py_copy(), ref.nr, ref.ncols)
        if src != before:
            bad('source-changed', 'source queue changed by partition: %s -> %s' % (before, src))
        tot = [[a + b for a, b in zip(s1, s2)] for s1, s2 in zip(v1, v2)]
        if tot != before:
            bad('conservation', 'parts %s + %s do not add up to %s' % (v1, v2, before))
        if sum(map(sum, v1)) != sum(coins):
            bad('count', 'first part holds %s occurrences, coins say %d' % (sum(map(sum, v1)), sum(coins)))
        if any(min(s) < 0 for s in v1 + v2):
            bad('negative', 'negative pending count in a part: %s %s' % (v1, v2))
        exp_times = [ref.t0 + (ref.nxt + i) * ref.dt for i in range(ref.ncols)]
        if t1 != exp_times or t2 != exp_times:
            bad('time', 'slot times of the parts %s %s, reference %s' % (t1, t2, exp_times))
        r2 = ref.clone(clear=True)
        chosen = v1 if part == 0 else v2
        for i, s in enumerate(chosen):
            for r, cnt in enumerate(s):
                if cnt:
                    r2.p.setdefault(ref.nxt + i, {})[r] = int(cnt)
        return parts[part], r2
    raise ValueError(op)


def build(shape, hist, c):
    """replay a history on a fresh queue; returns (queue, reference)"""
    from ..core import Collector
    q, ref = fresh(shape)
    quiet = Collector()
    for i, op in enumerate(hist):
        q2, ref = apply(q, ref, op, quiet, shape, hist[:i])
        if q2 is None:   # copy / clear_copy: continue on the derived queue
            qq, rr = build(shape, hist[:i], quiet)
            q = qq.py_copy() if op[0] == 'copy' else qq.py_clear_copy()
            qq.py_add_reaction(rr.next_time(), 0, 1.0)   # edit the source afterwards: the copy must not notice
            qq.py_advance_time()
        else:
            q = q2
    return q, ref


def bfs(c, item):
    shape, L, cap = item
    seen = {fresh(shape)[1].canon()}
    frontier = [[]]
    depth = 0
    ntrans = 0
    while frontier and depth < L:
        nxt = []
        for hist in frontier:
            q0, ref0 = build(shape, hist, c)
            for op in ops_for(ref0, cap):
                q, ref = build(shape, hist, c)
                q2, ref2 = apply(q, ref, op, c, shape, hist)
                if q2 is None:
                    q2, _ = build(shape, hist + [op], c)
                ntrans += 1
                # full observable state after the step, read destructively from the real queue
                got, times = drain(q2, ref2.nr, ref2.ncols)
                exp_t = [ref2.t0 + (ref2.nxt + i) * ref2.dt for i in range(ref2.ncols)]
                if got != ref2.view() or times != exp_t:
                    c.violation('C20/%s/state' % op[0], 'after %s the queue holds %s at %s, reference %s at %s' % (
                        op, got, times, ref2.view(), exp_t), dict(shape=shape, history=[list(map(str, h)) for h in hist + [op]]))
                k = ref2.canon()
                if k not in seen:
                    seen.add(k)
                    nxt.append(hist + [op])
                    if len(c.samples) < 1 and len(hist) >= 3:
                        c.sample(dict(shape=shape, history=[list(map(str, h)) for h in hist + [op]], queue=ref2.view()))
        frontier = nxt
        depth += 1
    c.count('states', len(seen))
    c.count('transitions', ntrans)
    c.count('evaluations', ntrans)
    c.count('traces', ntrans)
    c.note('frontier_exhausted_at_depth', {str(shape): depth})
    c.nontrivial(str(shape))


def big_partition(c, item):
    """slots that hold many occurrences (50..400 of one reaction, on an advanced ring): every coin pattern of a small menu; the
    parts are whole, non-negative, add up slot by slot, and the first part holds exactly the number of coins that came up heads"""
    from bioscrape.simulator import ArrayDelayQueue
    n_occ, pattern, adv = item
    c.count('states'); c.count('traces'); c.count('evaluations'); c.count('transitions')
    q = ArrayDelayQueue(np.zeros((2, 4)), 0.5, 0.0)
    for _ in range(adv):
        q.py_advance_time()
    t1 = q.py_get_next_queue_time() + 0.5
    q.py_add_reaction(t1, 1, float(n_occ))
    q.py_add_reaction(t1 + 1.0, 0, 3.0)
    p = 0.3
    coins = {'heads': [1] * (n_occ + 3), 'tails': [0] * (n_occ + 3), 'alternate': [i % 2 for i in range(n_occ + 3)],
             'first-third': [1 if i < (n_occ + 3) // 3 else 0 for i in range(n_occ + 3)]}[pattern]
    script = [p / 2 if b_ else (1 + p) / 2 for b_ in coins]
    before, _ = drain(q.py_copy(), 2, 4)
    with Stream(script) as st:
        parts = q.py_binomial_partition(p)
    case = dict(big_partition=[n_occ, pattern, adv])
    if st.consumed != n_occ + 3 or st.overrun:
        c.violation('C20/part/coins', 'partition of %d pending occurrences used %d(+%d) coins' % (n_occ + 3, st.consumed, st.overrun), case)
        return
    v1, _ = drain(parts[0].py_copy(), 2, 4)
    v2, _ = drain(parts[1].py_copy(), 2, 4)
    tot = [[a + b for a, b in zip(s1, s2)] for s1, s2 in zip(v1, v2)]
    if tot != before:
        c.violation('C20/part/conservation', 'parts %s + %s do not add up to %s' % (v1, v2, before), case)
    elif any(min(s_) < 0 or any(v_ != int(v_) for v_ in s_) for s_ in v1 + v2):
        c.violation('C20/part/negative', 'a part holds a negative or fractional count: %s %s' % (v1, v2), case)
    elif sum(map(sum, v1)) != sum(coins):
        c.violation('C20/part/count', 'first part holds %s occurrences, %d coins came up heads' % (sum(map(sum, v1)), sum(coins)), case)
    else:
        c.nontrivial(('big-partition', n_occ, pattern, adv))


def shapes(tier):
    out = []
    for nr in (1, 2):
        for ncols in (2, 3, 4):
            for dt in ((0.25, 1.0) if tier == 'quick' else (0.25, 0.5, 1.0)):
                for t0 in (0.0, 2.5, -1.0):
                    for how in ('ctor', 'set'):
                        if tier == 'quick' and how == 'set' and t0 != 2.5:
                            continue
                        out.append((nr, ncols, dt, t0, how))
    for nr, ncols in ((2, 3), (1, 4)):
        for how in ('ctor-fortran', 'ctor-transposed', 'ctor-strided'):
            out.append((nr, ncols, 0.5, 2.5, how))
    # beyond the stated family: more reactions than 2, more slots than 4 (explored to a shorter length, see run)
    for nr, ncols in (((3, 5), (2, 7), (3, 2), (4, 3)) if tier == 'quick' else ((3, 5), (2, 7), (3, 2), (4, 3), (4, 6), (3, 9), (5, 3), (6, 4))):
        for t0 in (0.0, 2.5):
            out.append((nr, ncols, 0.5, t0, 'ctor'))
    return out


def run(ctx):
    L = 6 if ctx.quick else 8
    cap = 3 if ctx.quick else 4
    sh = shapes(ctx.tier)
    ctx.bounds = dict(history_length=L, pending_cap=cap, shapes=len(sh))
    ctx.rule = ('E3: explicit-state BFS on the real ArrayDelayQueue for every shape (1..2 reactions, 2..4 slots, dt in {0.25,0.5,1}, start '
                'time in {0,2.5,-1}, constructed (also on Fortran-ordered, transposed and strided arrays) or re-timed; plus other shapes, among them more reactions than slots (3 reactions x 5 slots, 2 x 7, 3 x 2, 4 x 3; thorough also 4 x 6, 3 x 9, 5 x 3, 6 x 4) to a length 1-2 shorter); operations add(r, time) with time 2 and 0.3 slots in the past, on every '
                'slot, 0.3 dt before/after every slot, 0.7, 1 and 3 slots, 2^32 slots and infinitely far beyond the horizon; read-and-advance; copy; clear_copy; set_current_time (same, later, earlier) on the queue as it stands; '
                'binomial_partition with every coin sequence (continuing on either part); separately, partitions of slots holding 50..400 (thorough 1000) occurrences under four coin patterns. After every transition the real queue is '
                'drained and compared slot by slot (content and slot times) with the reference. States are merged on (pending counts '
                'per relative slot and reaction, ring position); every shape counts as one non-trivial case.')
    ctx.assumptions = ['requested times are never exactly half-way between slots', 'at most %d pending occurrences at a time' % cap]
    bigs = [(n_, pat_, adv_) for n_ in ((50, 101, 150, 400) if ctx.quick else (50, 99, 100, 101, 150, 400, 1000)) for pat_ in ('heads', 'tails', 'alternate', 'first-third') for adv_ in (0, 3)]
    pmap(big_partition, bigs, ctx, nshards=len(bigs))
    pmap(bfs, [(s, L if (s[0] <= 2 and s[1] <= 4) else L - 1 - (s[1] > 6), cap) for s in sh], ctx, nshards=len(sh))


def replay(ctx, case):
    if case.get('big_partition'):
        return big_partition(ctx, tuple(case['big_partition']))
    shape = tuple(case['shape'])
    hist = []
    for h in case['history']:
        if h[0] == 'add':
            hist.append(('add', int(h[1]), h[2]))
        elif h[0] == 'part':
            hist.append(('part', tuple(int(x) for x in h[1].strip('()').split(',') if x.strip()), int(h[2])))
        else:
            hist.append((h[0],))
    q, ref = build(shape, hist[:-1], ctx)
    q2, ref2 = apply(q, ref, hist[-1], ctx, shape, hist[:-1])
    if q2 is None:
        q2, _ = build(shape, hist, ctx)
    got, times = drain(q2, ref2.nr, ref2.ncols)
    if got != ref2.view():
        ctx.violation('C20/replay/state', 'queue holds %s, reference %s' % (got, ref2.view()), case)
