"""C07 - every simulation mode returns a complete, correctly labelled result (E3, exhaustive option lattice)."""
import itertools, traceback
import numpy as np
from ..core import pmap
from ..nets import spec, ma
from ..modelspec import to_model
from ..ref import rules as RR

A, B, C, X = 'A', 'B', 'C', 'X'
ID = lambda s: ('id', s)
OPTION_WORDS = ('delay', 'volume', 'stochastic', 'safe', 'interface', 'model', 'deterministic')


def models():
    rx = [ma([A], [B], 1.5), ma([B], [A], 0.5)]
    drx = [dict(ma([A], [B], 1.5), delay=dict(type='fixed', delay=0.3, reactants=[], products=[C])), ma([B], [A], 0.5), ma([C], [], 0.7)]
    rule = [dict(type='assignment', target=X, rhs=('+', ('*', ('num', 2), ID(A)), ID(B)), freq='repeated')]
    # twelve species (index order differs from the alphabetical and from the string order of the indices), distinct initial values
    names12 = ['s%02d' % i for i in (7, 3, 11, 0, 9, 1, 5, 10, 2, 8, 4, 6)]
    chain = [ma([names12[i]], [names12[i + 1]], 0.5 + 0.1 * i) for i in range(11)] + [ma([names12[11]], [names12[0]], 0.3)]
    return {
        'twelve': spec('twelve', names12, {n_: float(3 + 2 * i) for i, n_ in enumerate(names12)}, chain),
        'plain': spec('plain', [A, B], {A: 4, B: 1}, rx),
        'delayed': spec('delayed', [A, B, C], {A: 4, B: 1, C: 0}, drx),
        'rule': spec('rule', [B, A, X], {A: 4, B: 1, X: 0}, rx, rules=rule),
        'rule+rejected-edits': dict(spec('rule+rejected-edits', [B, A, X], {A: 4, B: 1, X: 0}, rx, rules=rule), rejected=True),
        # a parameter-assigning and a species-assigning rule that read the cell volume (1 where no volume is in play)
        'rule-reads-volume': spec('rule-reads-volume', [A, X, B], {A: 4, B: 1, X: 0}, rx, params={'P': 0.0},
                                  rules=[dict(type='assignment', target='P', rhs=('+', ('*', ('num', 3), ('vol',)), ('num', 1)), freq='repeated'),
                                         dict(type='assignment', target=X, rhs=('+', ('*', ('num', 2), ID('P')), ('*', ID(A), ('vol',))), freq='repeated')]),
        'rule+delayed': spec('rule+delayed', [C, A, B, X], {A: 4, B: 1, C: 0, X: 0}, drx, rules=rule),
        'rule-at-start': spec('rule-at-start', [A, X, B], {A: 4, B: 1, X: 0}, rx,
                              rules=[dict(type='assignment', target=X, rhs=('+', ('*', ('num', 3), ID(A)), ('num', 5)), freq='start')]),
        'rule-at-0': spec('rule-at-0', [A, X, B], {A: 4, B: 1, X: 0}, rx,
                          rules=[dict(type='assignment', target=X, rhs=('+', ('*', ('num', 3), ID(A)), ('num', 5)), freq='0')]),
    }


def lattice(tier):
    vols = ['False', 'True', 'num', 'int2', 'int3', 'obj', 'sized-only', 'growing', 'dividing']
    grids = [3, 5, 9] if tier == 'thorough' else [3, 6]
    out = []
    for stochastic, delay, safe, vol, df, via, mname, n in itertools.product(
            (False, True), (None, False, True), (False, True), vols, (True, False), ('Model', 'Interface'),
            list(models()), grids):
        out.append(dict(stochastic=stochastic, delay=delay, safe=safe, volume=vol, dataframe=df, via=via, model=mname, n=n))
        if n == grids[0]:
            out.append(dict(stochastic=stochastic, delay=delay, safe=safe, volume=vol, dataframe=df, via=via, model=mname, n=n, second_call=True))
            if mname in ('plain', 'rule', 'delayed') and vol in ('False', 'num'):
                # the same values of the time grid in other array layouts; and a structural edit between two calls on the same Model
                for gr in ('strided', 'column', 'readonly', 'fortran'):
                    out.append(dict(stochastic=stochastic, delay=delay, safe=safe, volume=vol, dataframe=df, via=via, model=mname, n=n, grid_repr=gr))
                if via == 'Model':
                    out.append(dict(stochastic=stochastic, delay=delay, safe=safe, volume=vol, dataframe=df, via=via, model=mname, n=n, edit_between=True))
    return out


def make_volume(kind, m):
    from bioscrape.types import Volume, StochasticTimeThresholdVolume
    if kind == 'False':
        return False
    if kind == 'True':
        return True
    if kind == 'num':
        return 2.0
    if kind in ('int2', 'int3'):
        return int(kind[-1])         # a positive number written as a Python int
    if kind == 'obj':
        v = Volume()
        v.py_set_volume(1.5)
        return v
    if kind == 'sized-only':
        # a growing-volume object that was only given its size (never initialised, so no division time was drawn): it does not divide
        v = StochasticTimeThresholdVolume(40.0, 3.0, 0.0)
        v.py_set_volume(1.0)
        return v
    cyc, dv = (4.0, 3.0) if kind == 'growing' else (1.0, 1.3)
    v = StochasticTimeThresholdVolume(cyc, dv, 0.0)
    v.py_initialize(np.array(m.get_species_array(), dtype=float), m.get_parameter_values(), 0.0, 1.0)
    return v


def run_one(c, opt):
    from bioscrape.simulator import py_simulate_model, ModelCSimInterface, SafeModelCSimInterface
    import bioscrape.random as br
    import pandas
    sp = models()[opt['model']]
    m = to_model(sp)
    if sp.get('rejected'):
        # edits that are rejected after the model was built: an unparsable rule, an additive rule over an unknown species (its first
        # source exists), a reaction whose Hill rate names an unknown species - none of them may take part in a simulation
        for f in (lambda: m.create_rule('assignment', {'equation': 'A = B +* 2'}),
                  lambda: m.create_rule('additive', {'equation': 'B = A + NoSuchSpecies'}),
                  lambda: m.create_reaction([A], [B, B], 'hillpositive', {'k': 50.0, 'K': 2.0, 'n': 2.0, 's1': 'NoSuchSpecies'})):
            try:
                f()
            except Exception:
                continue
            raise RuntimeError('harness: an edit that must be rejected was accepted')
    times = np.linspace(0, 0.25 * (opt['n'] - 1), opt['n'])
    gr = opt.get('grid_repr')
    if gr == 'strided':
        times = np.linspace(0, 0.25 * (2 * opt['n'] - 2) / 2.0, 2 * opt['n'] - 1)[::2]        # a non-contiguous view with the same values
    elif gr == 'column':
        tab = np.zeros((opt['n'], 3)); tab[:, 1] = times; times = tab[:, 1]                   # a column of a table
    elif gr == 'readonly':
        times = times.copy(); times.setflags(write=False)
    elif gr == 'fortran':
        times = np.asfortranarray(np.vstack([times, times]))[0]
    req_times = np.array(times, dtype=float)
    kw = dict(stochastic=opt['stochastic'], delay=opt['delay'], safe=opt['safe'], return_dataframe=opt['dataframe'])
    vol = make_volume(opt['volume'], m)
    kw['volume'] = vol
    if opt['via'] == 'Model':
        kw['Model'] = m
    else:
        kw['Interface'] = SafeModelCSimInterface(m) if opt['safe'] else ModelCSimInterface(m)
    br.py_seed_random(12345)
    c.count('evaluations'); c.count('transitions'); c.count('traces')
    key = 'C07/%s/' % ('stoch' if opt['stochastic'] else 'det') + 'delay=%s/volume=%s/' % (opt['delay'], opt['volume'])

    def bad(what, msg):
        c.violation(key + what, msg, dict(opt=opt))
    try:
        res = py_simulate_model(times, **kw)
        if opt.get('edit_between'):
            # a structural edit and an explicit re-initialisation between two calls on the same Model
            m.create_reaction([A], ['Qnew'], 'massaction', {'k': 0.2})
            m.set_species({'Qnew': 6.0})
            m.py_initialize()
            sp = dict(sp, species=list(sp['species']) + ['Qnew'], x0=dict(sp['x0'], Qnew=6.0))
            br.py_seed_random(999)
            res = py_simulate_model(times, **kw)
        if opt.get('second_call'):
            # the same Model / interface again (a fresh volume object): the contract holds for every call, not only the first
            kw['volume'] = make_volume(opt['volume'], m)
            br.py_seed_random(54321)
            res = py_simulate_model(times, **kw)
    except BaseException as e:
        tb = traceback.extract_tb(e.__traceback__)
        inner = tb[-1].name if tb else ''
        msg = str(e)
        mentions = any(w in msg.lower() for w in OPTION_WORDS)
        ok = (isinstance(e, (ValueError, TypeError)) and mentions) or \
             (isinstance(e, NotImplementedError) and mentions and inner in ('py_simulate_model',))
        c.count('rejected')
        if not ok:
            bad('internal-error', 'failed from inside with %s: %s (innermost frame %s)' % (type(e).__name__, msg[:200], inner))
        else:
            c.nontrivial(('rejected', opt['stochastic'], opt['delay'], opt['volume']))
        return
    c.count('returned')
    c.nontrivial((opt['stochastic'], opt['delay'], opt['safe'], opt['volume'], opt['dataframe'], opt['via'], opt['model'], bool(opt.get('second_call'))))
    s2i = m.get_species2index()
    species = sorted(s2i, key=lambda s_: s2i[s_])        # the model's order, read from the index dictionary
    if list(m.get_species_list()) != species:
        bad('columns', 'get_species_list() %s is not in index order %s' % (list(m.get_species_list()), species))
    uses_volume = opt['volume'] != 'False' and (opt['stochastic'] or opt['delay'])
    if opt['dataframe']:
        if not isinstance(res, pandas.DataFrame):
            return bad('type', 'return_dataframe=True returned %s' % type(res).__name__)
        cols = list(res.columns)
        want = (species if opt['via'] == 'Model' else list(range(len(species))))
        if cols[:len(species)] != want:
            bad('columns', 'species columns %s, expected %s (model order)' % (cols[:len(species)], want))
        if 'time' not in cols:
            return bad('time-column', 'no time column: %s' % cols)
        if uses_volume and 'volume' not in cols:
            bad('volume-column', 'a volume is in use but the data frame has no volume column: %s' % cols)
        tcol = res['time'].to_numpy()
        data = res[cols[:len(species)]].to_numpy(dtype=float)
        volcol = res['volume'].to_numpy(dtype=float) if 'volume' in cols else None
    else:
        for meth in ('py_get_timepoints', 'py_get_result'):
            if not hasattr(res, meth):
                return bad('type', 'result object %s has no %s' % (type(res).__name__, meth))
        tcol = res.py_get_timepoints()
        data = np.asarray(res.py_get_result(), dtype=float)
        volcol = np.asarray(res.py_get_volume(), dtype=float) if uses_volume and hasattr(res, 'py_get_volume') else None
        if uses_volume and not hasattr(res, 'py_get_volume'):
            bad('volume-column', 'a volume is in use but the result object %s has no volume trace' % type(res).__name__)
    if tcol is None or any(t is None for t in np.atleast_1d(tcol)):
        return bad('time-axis', 'the result carries no time axis (time is None)')
    tcol = np.asarray(tcol, dtype=float)
    divided = opt['volume'] == 'dividing' and uses_volume
    nrows = data.shape[0]
    if len(tcol) != nrows or (volcol is not None and len(volcol) != nrows):
        bad('shape', 'rows %d, time axis %d, volume %s' % (nrows, len(tcol), None if volcol is None else len(volcol)))
    if divided:
        if not (1 <= nrows <= len(times)) or not np.array_equal(tcol, times[:len(tcol)]):
            bad('time-axis', 'time axis %s is not a prefix of the request %s' % (tcol, times))
    else:
        if nrows != len(times) or not np.array_equal(tcol, times):
            bad('time-axis', 'time axis %s differs from the request %s (rows %d)' % (tcol, times, nrows))
    if data.shape[1] != len(species):
        bad('columns', '%d species columns for %d species' % (data.shape[1], len(species)))
    elif nrows:
        x = {s: float(sp['x0'][s]) for s in sp['species']}
        P = dict(sp['params'])
        v_used = {'num': 2.0, 'int2': 2.0, 'int3': 3.0, 'obj': 1.5}.get(opt['volume'], 1.0) if uses_volume else 1.0
        RR.apply(sp['rules'], x, P, 0.0, 0.25, True, v_used)
        want = [x[s] for s in species]
        if any(abs(a - b) > 1e-9 for a, b in zip(data[0], want)):
            bad('first-row', 'first row %s is not the initial condition with rules applied %s (%s)' % (list(data[0]), want, species))
    if gr and not opt.get('second_call') and not opt.get('edit_between'):
        # a result labelled with these times: the same call on a fresh model with the same time values in a plain contiguous array and
        # the same seed must report the same rows (a simulator that walks the grid's buffer ignoring strides samples other times)
        m2 = to_model(sp)
        kw2 = dict(kw, volume=make_volume(opt['volume'], m2), return_dataframe=False)
        kw2.pop('Model', None); kw2.pop('Interface', None)
        if opt['via'] == 'Model':
            kw2['Model'] = m2
        else:
            kw2['Interface'] = SafeModelCSimInterface(m2) if opt['safe'] else ModelCSimInterface(m2)
        br.py_seed_random(12345)
        try:
            data2 = np.asarray(py_simulate_model(np.array(req_times, dtype=float), **kw2).py_get_result(), dtype=float)
        except BaseException as e:
            data2 = None
            bad('grid-layout', 'the call succeeds on the %s grid but fails on a contiguous copy of it: %s' % (gr, str(e)[:150]))
        c.count('evaluations')
        if data2 is not None and (data2.shape != data.shape or not np.allclose(data2, data, rtol=1e-9, atol=1e-12)):
            bad('grid-layout', 'rows for the time values %s depend on the memory layout of the grid (%s): %s versus %s on a contiguous copy' % (
                list(req_times), gr, data.tolist(), data2.tolist()))
    if volcol is not None and len(volcol) and np.any(volcol <= 0):
        bad('volume-column', 'non-positive volume reported: %s' % volcol)
    asked = {'num': 2.0, 'int2': 2.0, 'int3': 3.0, 'obj': 1.5}.get(opt['volume'])
    if volcol is not None and len(volcol) and asked is not None and np.any(volcol != asked):
        bad('volume-value', 'the volume was given as the constant %s, the result reports %s' % (asked, volcol))
    if len(c.samples) < 3 and opt['delay'] and opt['volume'] != 'False':
        c.sample(dict(opt=opt, rows=int(nrows), columns=[str(x_) for x_ in (list(res.columns) if opt['dataframe'] else species)]))


def run(ctx):
    lat = lattice(ctx.tier)
    ctx.bounds = dict(option_combinations=len(lat))
    ctx.rule = ('E3/product lattice, exhaustive: {stochastic} x {delay None/False/True} x {safe} x {volume False/True/number (float 2.0, int 2, int 3)/Volume object/'
                'initialised growing volume (thorough: + dividing)} x {data frame, result object} x {Model, pre-built interface} x 9 models '
                '(twelve species in a cycle, plain, one with a rule and rejected create_rule / create_reaction calls after it, one whose rules read the volume, delayed reaction, repeated assignment rule, both, a rule due at the start spelled "start" and "0") x grid lengths; every call is made on the real py_simulate_model under a ' 'fixed seed; for two models the time grid is also given as a strided view, a table column, a read-only and a Fortran-ordered array, and a reaction that introduces a species is added (with an explicit re-initialisation) between two calls on the same Model; '
                'fixed seed, and for one grid length the same call is repeated on the same Model / interface. Oracle: a returned result has the requested time axis (prefix if divided), one column per species in model '
                'order (+volume when a volume is used; a constant volume given as a number or Volume object is reported with that value), first row = initial condition with rules applied; a refusal must be a ValueError/'
                'TypeError naming an option (or NotImplementedError raised by the entry point itself). For every grid layout the same call on a fresh model with a contiguous copy of the grid and the same seed must report the same rows (the delayed model takes part). states = transitions = calls; '
                'non-trivial = distinct (option tuple, model) that returned, plus distinct rejected option classes.')
    ctx.assumptions = ['uniform grids starting at the model initial time 0']
    c0 = ctx
    pmap(run_one, lat, ctx, nshards=64)
    ctx.counters['states'] = len(lat)


def replay(ctx, case):
    run_one(ctx, case['opt'])
