"""C16 - built-in priors are the log-densities they are named after (engine E2)."""
import itertools, math
import numpy as np
from ..core import pmap


def families():
    from scipy import stats
    F = []
    for lb, ub in ((0.0, 1.0), (0.5, 4.0), (-2.0, 3.0)):
        F.append(('uniform', [lb, ub], lambda x, lb=lb, ub=ub: stats.uniform.logpdf(x, lb, ub - lb), (lb, ub)))
    for mu, sd in ((0.0, 1.0), (2.0, 0.5), (-1.0, 3.0)):
        F.append(('gaussian', [mu, sd], lambda x, mu=mu, sd=sd: stats.norm.logpdf(x, mu, sd), (-math.inf, math.inf)))
    for lam in (0.5, 2.0, 7.0):
        F.append(('exponential', [lam], lambda x, lam=lam: stats.expon.logpdf(x, scale=1.0 / lam), (0.0, math.inf)))
    for a in (0.5, 1.0, 2.0, 3.0, 4.5):
        for b in (0.5, 2.0):
            F.append(('gamma', [a, b], lambda x, a=a, b=b: stats.gamma.logpdf(x, a, scale=1.0 / b), (0.0, math.inf)))
    for a in (0.5, 1.0, 2.0, 3.0):
        for b in (0.5, 1.0, 2.0, 3.0):
            F.append(('beta', [a, b], lambda x, a=a, b=b: stats.beta.logpdf(x, a, b), (0.0, 1.0)))
    for a, b in ((100.0, 80.0), (30.0, 150.0), (171.0, 2.0)):          # concentrated priors: shape parameters whose sum passes 172
        F.append(('beta', [a, b], lambda x, a=a, b=b: stats.beta.logpdf(x, a, b), (0.0, 1.0)))
    for a, b in ((150.0, 30.0), (60.0, 0.5)):
        F.append(('gamma', [a, b], lambda x, a=a, b=b: stats.gamma.logpdf(x, a, scale=1.0 / b), (0.0, math.inf)))
    for lb, ub in ((0.1, 10.0), (1.0, 2.0), (2.0, 5.0), (2.0, 3.0), (0.3, 0.7)):
        F.append(('log-uniform', [lb, ub], lambda x, lb=lb, ub=ub: stats.loguniform.logpdf(x, lb, ub), (lb, ub)))
    for mu, sd in ((0.0, 1.0), (1.0, 0.25)):
        F.append(('log-gaussian', [mu, sd], lambda x, mu=mu, sd=sd: stats.lognorm.logpdf(x, sd, scale=math.exp(mu)), (0.0, math.inf)))
    return F


def values(support):
    lo, hi = support
    a = lo if math.isfinite(lo) else -4.0
    b = hi if math.isfinite(hi) else (a + 8.0)
    vals = [a + (b - a) * (i + 0.5) / 9 for i in range(9)]
    for edge in (lo, hi):
        if math.isfinite(edge):
            vals += [edge, edge - 1e-9, edge + 1e-9, edge - 1e-3, edge + 1e-3]
    vals += [-2.5, -0.3, 0.0, 1.7, 12.0]
    return sorted(set(vals))


class FakeModel:
    def get_parameter_dictionary(self):
        return {}


def expected(fam, x, positive):
    name, pars, logpdf, support = fam
    if positive and x < 0:
        return None   # rejected
    for edge in support:
        if math.isfinite(edge) and x != edge and abs(x - edge) < 1e-12 * (1 + abs(edge)):
            return 'underflow'   # within an ulp or two of a support edge (exp(log(edge)) in log space): the oracle's own rounding decides, not compared
    with np.errstate(all='ignore'):
        v = float(logpdf(x))
    if math.isfinite(v) and v < -690.0:
        return 'underflow'   # the density is below the smallest double: not compared (see assumptions)
    return v if math.isfinite(v) else None


def single(c, item):
    from bioscrape.pid_interfaces import PIDInterface
    fi, positive = item
    fam = families()[fi]
    name, pars, logpdf, support = fam
    spec = [name] + pars + (['positive'] if positive else [])
    pid = PIDInterface(['p'], FakeModel(), {'p': spec})
    n_in = n_out = 0
    for x in values(support):
        exp = expected(fam, x, positive)
        try:
            with np.errstate(all='ignore'):
                got = pid.check_prior({'p': x})
            got = float(got)
        except Exception as e:
            got = e
        c.count('evaluations'); c.count('transitions')
        case = dict(family=name, params=pars, positive=positive, x=x)
        if isinstance(got, Exception):
            c.violation('C16/%s/exception' % name, 'check_prior raised %r at x=%r' % (got, x), case)
            continue
        if exp == 'underflow':
            continue
        if exp is None:
            n_out += 1
            if math.isfinite(got):
                where = 'negative value under the positive flag' if (positive and x < 0) else 'outside the support'
                c.violation('C16/%s/out-of-support-finite' % name, '%s%s at x=%r (%s) gives finite log-prior %r' % (
                    name, pars, x, where, got), case)
        else:
            n_in += 1
            if not math.isfinite(got) or abs(got - exp) > 1e-10 * (1 + abs(exp)):
                c.violation('C16/%s/density' % name, '%s%s at x=%r: log-prior %r, log-density %r' % (name, pars, x, got, exp), case)
    c.count('states')
    if n_in and n_out:
        c.nontrivial((name, tuple(pars), positive))
    if len(c.samples) < 2:
        c.sample(dict(prior=spec, values=values(support)[:6]))


def combos(c, item):
    """sums over 1..4 parameters, through check_prior and through InferenceSetup.cost_function"""
    from bioscrape.pid_interfaces import PIDInterface
    idxs, xs, positive = item
    flags = positive if isinstance(positive, (list, tuple)) else [positive] * len(idxs)
    F = families()
    prior = {}
    params = {}
    exp_total = 0.0
    rejected = False
    case_ = {}
    for k, (fi, x) in enumerate(zip(idxs, xs)):
        fam = F[fi]
        nm = 'p%d' % k
        prior[nm] = [fam[0]] + fam[1] + (['positive'] if flags[k] else [])
        params[nm] = x
        e = expected(fam, x, flags[k])
        if e == 'underflow':
            return
        if e is None:
            rejected = True
            if 'first_bad' not in case_:
                case_['first_bad'] = fam[0]
        else:
            exp_total += e
    # the prior dictionary, the list of parameters to estimate and the dictionary of values are each written in an order of their own
    names = list(prior)
    rot = sum(idxs) % len(names)
    prior = {k_: prior[k_] for k_ in reversed(names)}
    params = {k_: params[k_] for k_ in names[rot:] + names[:rot]}
    pid = PIDInterface(names, FakeModel(), prior)
    c.count('evaluations'); c.count('transitions')
    case = dict(prior=prior, params=params)
    key = case_.get('first_bad', 'all-inside')
    try:
        with np.errstate(all='ignore'):
            got = float(pid.check_prior(params))
    except Exception as e:
        c.violation('C16/sum/exception/%s' % key, 'check_prior raised %r for %s' % (e, params), case)
        return
    if rejected:
        if math.isfinite(got):
            c.violation('C16/sum/out-of-support-finite/%s' % key, 'vector with an out-of-support component has finite log-prior %r' % got, case)
    elif not math.isfinite(got) or abs(got - exp_total) > 1e-9 * (1 + abs(exp_total)):
        c.violation('C16/sum/density/%s' % key, 'log-prior %r, sum of log-densities %r' % (got, exp_total), case)
    c.nontrivial(('combo', tuple(idxs), tuple(xs), positive))


_SEQ_DONE = []


def sequence(c, item):
    """a prior is evaluated after other priors were evaluated under the SAME parameter name (a second interface object, or the same
    object with its prior dictionary replaced): the answer is still the log-density of the prior in force"""
    from bioscrape.pid_interfaces import PIDInterface
    F = families()
    hist, how = item
    pid = None
    before = list(_SEQ_DONE)          # what this process evaluated earlier (replayed first, so that a case reproduces from a fresh process)
    _SEQ_DONE.append([list(hist), how])
    for step, fi in enumerate(hist):
        fam = F[fi]
        spec = [fam[0]] + fam[1]
        if how == 'new-object' or pid is None:
            pid = PIDInterface(['p'], FakeModel(), {'p': spec})
        else:
            pid.prior = {'p': spec}
        for x in (0.4, 1.7, 0.05):
            exp = expected(fam, x, False)
            c.count('evaluations'); c.count('transitions')
            case = dict(history=[[F[j][0]] + F[j][1] for j in hist], how=how, step=step, x=x, hist=list(hist), before=before)
            try:
                with np.errstate(all='ignore'):
                    got = float(pid.check_prior({'p': x}))
            except Exception as e:
                c.violation('C16/sequence/%s/exception' % fam[0], 'check_prior raised %r at step %d of %s' % (e, step, case['history']), case)
                return
            if exp == 'underflow':
                continue
            if exp is None:
                if math.isfinite(got):
                    c.violation('C16/sequence/%s/out-of-support-finite' % fam[0], 'step %d of %s (%s): finite log-prior %r at x=%r outside the support' % (
                        step, case['history'], how, got, x), case)
                    return
            elif not math.isfinite(got) or abs(got - exp) > 1e-10 * (1 + abs(exp)):
                c.violation('C16/sequence/%s/density' % fam[0], 'step %d of %s (%s): log-prior %r at x=%r, log-density %r' % (
                    step, case['history'], how, got, x, exp), case)
                return
    c.count('states')
    c.nontrivial(('sequence', tuple(hist), how))


def cost(c, item):
    """out-of-support theta through InferenceSetup.cost_function must be -inf; inside: prior + likelihood"""
    import pandas as pd
    from bioscrape.types import Model
    from bioscrape.inference_setup import InferenceSetup
    fi, positive = item
    fam = families()[fi]
    name, pars, logpdf, support = fam
    m = Model(species=['A'], reactions=[(['A'], [], 'massaction', {'k': 'kd'})], parameters=[('kd', 1.0)], initial_condition_dict={'A': 4.0})
    t = np.linspace(0, 1, 5)
    df = pd.DataFrame({'time': t, 'A': 4.0 * np.exp(-1.0 * t)})
    prior = {'kd': [name] + pars + (['positive'] if positive else [])}
    ins = InferenceSetup(Model=m, prior=prior, params_to_estimate=['kd'], exp_data=df, measurements=['A'], time_column='time',
                         initial_conditions={'A': 4.0}, norm_order=2, sim_type='deterministic')
    for x in values(support):
        exp = expected(fam, x, positive)
        c.count('evaluations'); c.count('transitions')
        case = dict(family=name, params=pars, positive=positive, x=x, via='cost_function')
        try:
            with np.errstate(all='ignore'):
                got = float(ins.cost_function([x]))
        except Exception as e:
            c.violation('C16/%s/cost-exception' % name, 'cost_function(%r) raised %r' % (x, e), case)
            continue
        if exp == 'underflow':
            continue
        if exp is None:
            if got != -math.inf:
                c.violation('C16/%s/cost-out-of-support' % name, 'cost_function(%r) = %r outside the support of %s%s (must be -inf)' % (x, got, name, pars), case)
        elif x > 0:
            sim = 4.0 * np.exp(-x * t)
            ll = -math.sqrt(float(np.sum((4.0 * np.exp(-t) - sim) ** 2)))
            if not math.isfinite(got) or abs(got - (exp + ll)) > 1e-5 * (1 + abs(exp + ll)):
                c.violation('C16/%s/cost-value' % name, 'cost_function(%r) = %r, log-density + likelihood = %r' % (x, got, exp + ll), case)
    # drawing start values for the walkers (from the prior, or around the model's values) must leave the prior as it is
    probe = [x for x in values(support) if x > 0][:6] + [-0.3]
    def snapshot():
        out = []
        for x in probe:
            with np.errstate(all='ignore'):
                out.append(float(ins.cost_function([x])))
        return out
    try:
        before = snapshot()
        for seed_kw in ('prior', 0.1):
            try:
                ins.seed_parameter_values(init_seed=seed_kw)
            except ValueError:
                pass        # 'prior' seeding is offered for uniform, gaussian and log-uniform only
            after = snapshot()
            c.count('evaluations'); c.count('transitions')
            if any(not (a == b or abs(a - b) <= 1e-12 * (1 + abs(a))) for a, b in zip(before, after)):
                c.violation('C16/%s/prior-changed-by-seeding' % name, 'after seed_parameter_values(init_seed=%r) the cost at %s went from %s to %s' % (
                    seed_kw, probe, before, after), dict(family=name, params=pars, positive=positive, x=probe[0], via='cost_function'))
                break
    except Exception as e:
        c.violation('C16/%s/cost-exception' % name, 'seeding start values raised %r' % e, dict(family=name, params=pars, positive=positive, x=probe[0], via='cost_function'))
    c.count('states')


def cost_routes(c, item):
    """the same prior behind the deterministic and the stochastic interface, with the parameters given in linear and in log space
    (log_space_parameters=True: theta = log value, the prior is the prior of the value); the stochastic model is stream-independent
    (its only reaction has no reactant molecules), and the data equal its constant trajectory, so the likelihood term is 0"""
    import pandas as pd
    from bioscrape.types import Model
    from bioscrape.inference_setup import InferenceSetup
    import bioscrape.random as br
    fi, positive, sim_type, logspace = item
    fam = families()[fi]
    name, pars, logpdf, support = fam
    t = np.linspace(0, 1, 5)
    if sim_type == 'deterministic':
        m = Model(species=['A'], reactions=[(['A'], [], 'massaction', {'k': 'kd'})], parameters=[('kd', 1.0)], initial_condition_dict={'A': 4.0})
        df = pd.DataFrame({'time': t, 'A': 4.0 * np.exp(-1.0 * t)})
        ic = {'A': 4.0}
        like = lambda x: -math.sqrt(float(np.sum((4.0 * np.exp(-t) - 4.0 * np.exp(-x * t)) ** 2)))
    else:
        m = Model(species=['A', 'Z'], reactions=[(['Z'], [], 'massaction', {'k': 'kd'})], parameters=[('kd', 1.0)], initial_condition_dict={'A': 4.0, 'Z': 0.0})
        df = pd.DataFrame({'time': t, 'A': np.full(len(t), 4.0)})       # data equal to the constant trajectory: the likelihood term is 0
        ic = {'A': 4.0, 'Z': 0.0}
        like = lambda x: 0.0
    prior = {'kd': [name] + pars + (['positive'] if positive else [])}
    kw = dict(N_simulations=2) if sim_type == 'stochastic' else {}
    ins = InferenceSetup(Model=m, prior=prior, params_to_estimate=['kd'], exp_data=df, measurements=['A'], time_column='time',
                         initial_conditions=ic, norm_order=2, sim_type=sim_type, **kw)
    ins.setup_cost_function(log_space_parameters=logspace)
    n_in = n_out = 0
    for x in values(support):
        if logspace and x <= 0:
            continue
        if sim_type == 'stochastic' and x < 0:
            continue                   # a negative rate constant cannot be simulated stochastically
        theta = math.log(x) if logspace else x
        if logspace:
            x = float(np.exp(theta))          # the value the interface sees (exp(log x) may differ from x in the last bit: support edges)
        exp = expected(fam, x, positive)
        c.count('evaluations'); c.count('transitions')
        case = dict(family=name, params=pars, positive=positive, x=x, via='cost_routes', fi=fi, sim_type=sim_type, logspace=logspace)
        key = 'C16/%s/%s%s/' % (name, sim_type, '-logspace' if logspace else '')
        try:
            br.py_seed_random(5)
            with np.errstate(all='ignore'):
                got = float(ins.cost_function([theta]))
        except Exception as e:
            c.violation(key + 'cost-exception', 'cost_function(%r) raised %r' % (theta, e), case)
            continue
        if exp == 'underflow':
            continue
        if exp is None:
            n_out += 1
            if got != -math.inf:
                c.violation(key + 'cost-out-of-support', 'cost_function(theta=%r, value %r) = %r outside the support of %s%s (must be -inf)' % (theta, x, got, name, pars), case)
        else:
            n_in += 1
            want = exp + like(x)
            if not math.isfinite(got) or abs(got - want) > 1e-5 * (1 + abs(want)):
                c.violation(key + 'cost-value', 'cost_function(theta=%r, value %r) = %r, log-density + likelihood = %r' % (theta, x, got, want), case)
    c.count('states')
    if n_in and n_out:
        c.nontrivial(('routes', name, tuple(pars), positive, sim_type, logspace))


def run(ctx):
    F = families()
    items = [(i, pos) for i in range(len(F)) for pos in (False, True)]
    pmap(single, items, ctx, nshards=32)
    # all combinations of 2..4 parameters drawn from a 5-family menu x 3 values each (inside, boundary-outside, negative)
    menu = [next(i for i, f in enumerate(F) if f[0] == n) for n in ('uniform', 'gaussian', 'exponential', 'gamma', 'beta')]
    menu.append(next(i for i, f in enumerate(F) if f[0] == 'log-uniform'))
    menu.append(next(i for i, f in enumerate(F) if f[0] == 'log-gaussian'))
    valmenu = [0.4, 1.7, -0.3]
    cit = []
    for k in ((2, 3) if ctx.quick else (2, 3, 4)):
        for idxs in itertools.combinations(menu[:5] if k == 4 else menu, k):
            for xs in itertools.product(valmenu, repeat=k):
                for pos in itertools.product((False, True), repeat=k):      # every flag pattern, parameter by parameter
                    cit.append((idxs, xs, list(pos)))
    pmap(combos, cit, ctx, nshards=64)
    routes = [(i, pos, st_, lg) for i in range(len(F)) for pos in (False, True) for st_ in ('deterministic', 'stochastic') for lg in (False, True)
              if not (st_ == 'deterministic' and not lg)]
    pmap(cost, items, ctx, nshards=32)
    pmap(cost_routes, routes, ctx, nshards=64)
    # histories of priors under one parameter name: every ordered pair (thorough: and triples over a reduced menu)
    seqs = [(h, how) for h in itertools.permutations(range(len(F)), 2) for how in ('new-object', 'same-object')]
    red = [i for i, f in enumerate(F)][::3]
    if not ctx.quick:
        seqs += [(h, how) for h in itertools.permutations(red, 3) for how in ('new-object', 'same-object')]
    pmap(sequence, seqs, ctx, nshards=32)
    ctx.bounds = dict(families=len(F), single_items=len(items), combinations=len(cit), prior_histories=len(seqs))
    ctx.rule = ('E2, exhaustive over the stated alphabets: 7 prior families x parameter alphabets (%d parameterisations) x with/without the '
                'positive flag x values (9 interior points, support edges +-{0,1e-9,1e-3}, negative values, 0, values > 1), through '
                'PIDInterface.check_prior and through InferenceSetup.cost_function (deterministic and stochastic interface, parameters in linear and in log space); all combinations of 2..4 parameters from a 7-family menu '
                'x {inside, inside, negative} values x every per-parameter pattern of the positive flag; every ordered pair (thorough: triples over a third of the menu) of parameterisations evaluated one after the other under the same parameter name, on a new interface object or on the same object with its prior replaced. Oracle: scipy.stats logpdf summed over parameters where it is finite (1e-10), and a '
                'non-finite log-prior / -inf cost where scipy gives -inf or +inf or the positive flag rejects. states = parameterisations; a '
                'parameterisation is non-trivial when it has values inside and outside the support; each combination counts once.' % len(F))
    ctx.assumptions = ['values whose log-density is below -690 (density under the smallest double) are not compared', 'scipy.stats densities as the meaning of the prior names; gamma is (shape, rate), log-gaussian is lognormal(mu, sigma)']


def replay(ctx, case):
    F = families()
    if case.get('via') == 'cost_routes':
        return cost_routes(ctx, (case['fi'], case['positive'], case['sim_type'], case['logspace']))
    if 'hist' in case:
        from ..core import Collector
        for h, how in case.get('before', []):
            sequence(Collector(), (tuple(h), how))
        return sequence(ctx, (tuple(case['hist']), case['how']))
    if 'family' in case:
        for i, f in enumerate(F):
            if f[0] == case['family'] and f[1] == case['params']:
                single(ctx, (i, case['positive']))
                cost(ctx, (i, case['positive']))
    else:
        from bioscrape.pid_interfaces import PIDInterface
        pid = PIDInterface(list(case['prior']), FakeModel(), case['prior'])
        got = float(pid.check_prior(case['params']))
        ctx.violation('C16/replay', 'log-prior %r for %s' % (got, case['params']), case) if math.isfinite(got) else None
