"""C01 - built-in rate laws equal their documented closed forms (engine E2)."""
import itertools
import numpy as np
from ..core import pmap, shard_list, Collector
from ..util import rel_close, sequences
from ..ref import ratelaws as RL

POOL = ['A', 'B', 'C']
ORDERS = [['A', 'B', 'C'], ['C', 'A', 'B']]
HILLS = ['hillpositive', 'hillnegative', 'proportionalhillpositive', 'proportionalhillnegative']
MODES = ['det', 'vol', 'stoch', 'stochvol']
RTOL = 1e-12


def alphabets(tier):
    if tier == 'quick':
        return dict(sint=[0, 1, 2, 3], sreal=[0, 0.5, 1, 2, 3], k=[3.7], K=[0.5, 3.0], n=[1.0, 2.0, 2.5],
                    V=[0.25, 2.0], maxlen=4, orders=ORDERS[:2])
    return dict(sint=[0, 1, 2, 3, 5], sreal=[0, 0.5, 1, 2, 2.5, 3, 5], k=[0.5, 2.0, 3.7], K=[0.5, 3.0],
                n=[1.0, 2.0, 0.5, 2.5], V=[0.25, 1.0, 2.0, 3.3], maxlen=4, orders=ORDERS)


def specs(tier):
    al = alphabets(tier)
    out = []
    for order in al['orders']:
        for seq in sequences(POOL, 0, al['maxlen']):
            for form in ('numeric', 'named', 'species_string', 'species_string_spaced') + (('blank_species_string',) if not seq else ()):
                out.append(dict(kind='massaction', reactants=seq, form=form, order=order))
        for kind in HILLS:
            for s1 in POOL:
                ds = POOL if kind.startswith('proportional') else [None]
                for d in ds:
                    for form in ('numeric', 'named'):
                        out.append(dict(kind=kind, s1=s1, d=d, form=form, order=order))
    return out


def build(spec):
    from bioscrape.types import Model
    kind = spec['kind']
    if kind == 'massaction':
        pd = {'k': 'kf'} if spec['form'] != 'numeric' else {'k': 1.0}
        if spec['form'] == 'species_string':
            pd['species'] = '*'.join(spec['reactants'])
        if spec['form'] == 'blank_species_string':
            pd['species'] = ' '          # order zero written as a blank species string: handled by the general mass-action class
        if spec['form'] == 'species_string_spaced':
            # the same product written with blanks around the stars (and around the whole string)
            pd['species'] = ' * '.join(spec['reactants'])
        rx = (list(spec['reactants']), [], 'massaction', pd)
        params = [('kf', 1.0)] if spec['form'] != 'numeric' else []
    else:
        if spec['form'] == 'named':
            pd = {'k': 'kf', 'K': 'KK', 'n': 'nn', 's1': spec['s1']}
            params = [('kf', 1.0), ('KK', 1.0), ('nn', 1.0)]
        else:
            pd = {'k': 1.0, 'K': 1.0, 'n': 1.0, 's1': spec['s1']}
            params = []
        if spec['d'] is not None:
            pd['d'] = spec['d']
        # products only: the safe interface's reactant table is C06's business
        rx = ([], ['A'], kind, pd)
    m = Model(species=list(spec['order']), reactions=[rx], parameters=params,
              initial_condition_dict={s: 1 for s in POOL})
    return m


def param_slots(m, spec):
    """indices of k (K, n) in the model's parameter vector, for named and dummy parameters"""
    rd = m.get_reactions()  # noqa  (kept for symmetry)
    pd = m.reaction_definitions[0][3] if hasattr(m, 'reaction_definitions') else None
    return pd


def expected(spec, x, k, K, n, mode, V):
    if spec['kind'] == 'massaction':
        return RL.massaction(k, spec['reactants'], x, mode, V)
    return RL.hill(spec['kind'], k, K, n, spec['s1'], x, spec['d'], mode, V)


def evaluate_spec(c, spec, al, stop_at_first=False):
    from bioscrape.simulator import ModelCSimInterface, SafeModelCSimInterface
    try:
        m = build(spec)
    except KeyError:
        if spec.get('form') == 'species_string_spaced':
            c.count('rejected_spaced_species_string')      # some propensity classes do not strip blanks: a rejection, not a wrong rate
            return
        raise
    s2i = m.get_species2index()
    p2i = m.get_params2index()
    # the propensity dictionary after construction names the (dummy or real) parameters
    names = {}
    for pname in p2i:
        for key in ('k', 'K', 'n'):
            if pname == {'k': 'kf', 'K': 'KK', 'n': 'nn'}[key] or pname.endswith('_' + key + '_' + pname.rsplit('_', 1)[-1]) and pname.startswith('DummyVar'):
                names[key] = pname
    prop = m.get_propensities()[0]
    cls = type(prop).__name__
    plain = ModelCSimInterface(m)
    safe = SafeModelCSimInterface(m)
    plain.py_prep_deterministic_simulation()
    params = m.get_parameter_values()   # shared with the interfaces
    is_ma = spec['kind'] == 'massaction'
    Ks = [1.0] if is_ma else al['K']
    ns = [1.0] if is_ma else al['n']
    involved = sorted(set(spec['reactants'])) if is_ma else sorted({spec['s1']} | ({spec['d']} if spec['d'] else set()))
    # species not involved are held at a non-trivial constant; involved ones range over the alphabet
    for mode in MODES:
        vals = al['sint'] if mode in ('stoch', 'stochvol') else al['sreal']
        Vs = al['V'] if mode in ('vol', 'stochvol') else [1.0]
        key = (spec['kind'], tuple(sorted(spec.get('reactants', []))) if is_ma else (spec['s1'], spec['d']),
               spec['form'], tuple(spec['order']), mode)
        nontrivial = False
        for combo in itertools.product(vals, repeat=len(involved)):
            x = {s: 7.0 for s in POOL}
            x.update(dict(zip(involved, combo)))
            state = np.zeros(3)
            for s, i in s2i.items():
                state[i] = x[s]
            for k in al['k']:
                for K in Ks:
                    for n in ns:
                        params[p2i[names['k']]] = k
                        if not is_ma:
                            params[p2i[names['K']]] = K
                            params[p2i[names['n']]] = n
                        for V in Vs:
                            exp = expected(spec, x, k, K, n, mode, V)
                            if exp != 0 and (not is_ma or len(spec['reactants']) < 2 or
                                             exp != RL.massaction(k, sorted(set(spec['reactants'])), x, mode, V) or
                                             len(set(spec['reactants'])) == len(spec['reactants'])):
                                nontrivial = True
                            got = {}
                            if mode == 'det':
                                got['bare'] = prop.py_get_propensity(state, params, 0.0)
                            elif mode == 'vol':
                                got['bare'] = prop.py_get_volume_propensity(state, params, V, 0.0)
                            elif mode == 'stoch':
                                got['bare'] = prop.py_verif_get_stochastic_propensity(state, params, 0.0)
                            else:
                                got['bare'] = prop.py_verif_get_stochastic_volume_propensity(state, params, V, 0.0)
                            got['plain'] = plain.py_verif_compute_propensities(state, 0.0, V, mode)[0]
                            got['safe'] = safe.py_verif_compute_propensities(state, 0.0, V, mode)[0]
                            c.count('evaluations', 3)
                            c.count('transitions', 3)
                            for route, g in got.items():
                                if not rel_close(float(g), float(exp), RTOL, 1e-300):
                                    vkey = 'C01/%s/%s/%s/%s' % (spec['kind'], cls, mode, route)
                                    c.violation(vkey, 'rate %r != closed form %r' % (float(g), float(exp)),
                                                dict(spec=spec, x=x, k=k, K=K, n=n, V=V, mode=mode, route=route,
                                                     got=float(g), expected=float(exp)))
                                    if stop_at_first:
                                        return
        if nontrivial:
            c.nontrivial(key)
    c.count('states', 1)


def worker(c, item):
    tier, spec = item
    evaluate_spec(c, spec, alphabets(tier))
    if c.counters.get('states', 0) % 40 == 1:
        c.sample(dict(spec=spec))


def multi_reaction(c, item):
    """several reactions in one model, evaluated through the plain and safe interface loops at every state of a small box:
    each entry must be its own closed form (safe, stochastic forms: 0 where a consumed species is short), whatever the
    other reactions of the same call did"""
    from bioscrape.types import Model
    from bioscrape.simulator import ModelCSimInterface, SafeModelCSimInterface
    from ..ref import crn
    order, perm = item
    rx_all = [dict(reactants=['A'], products=['C'], kind='massaction', k=1.3),
              dict(reactants=['C'], products=['B'], kind='general', rate=('*', ('num', 2.0), ('id', 'C'))),
              dict(reactants=['A', 'B'], products=['C'], kind='massaction', k=0.7),
              dict(reactants=[], products=['A'], kind='massaction', k=3.0),
              dict(reactants=['B', 'B', 'A'], products=['C'], kind='massaction', k=0.2),
              dict(reactants=['B'], products=[], kind='hillnegative', k=1.5, K=2.0, n=2.0, s1='C')]
    rxs = [rx_all[i] for i in perm]
    from ..modelspec import reaction_tuple
    m = Model(species=list(order), reactions=[reaction_tuple(r) for r in rxs], initial_condition_dict={'A': 1, 'B': 1, 'C': 1})
    sp = dict(species=list(order), reactions=rxs, params={}, x0={})
    S, Sd = crn.stoich(sp)
    ifaces = {'plain': ModelCSimInterface(m), 'safe': SafeModelCSimInterface(m)}
    s2i = m.get_species2index()
    c.count('states')
    for xs in itertools.product(range(4), repeat=3):
        x = dict(zip(['A', 'B', 'C'], [float(v) for v in xs]))
        st = np.zeros(3)
        for sname, i in s2i.items():
            st[i] = x[sname]
        for mode in MODES:
            for route, iface in ifaces.items():
                got = iface.py_verif_compute_propensities(st, 0.0, 2.0, mode)
                exp = crn.rates(sp, x, mode, 2.0, 0.0, route == 'safe', None, (S, Sd))
                c.count('evaluations', len(rxs)); c.count('transitions', len(rxs))
                for j in range(len(rxs)):
                    if not rel_close(float(got[j]), float(exp[j]), RTOL, 1e-300):
                        c.violation('C01/multi-reaction/%s/%s' % (mode, route), 'reaction %d of %d (%s) has rate %r at %s, closed form %r' % (
                            j, len(rxs), rxs[j]['kind'], float(got[j]), x, float(exp[j])), dict(spec=dict(kind='multi', order=list(order), perm=list(perm)), x=x, mode=mode, route=route))
                        return
    c.nontrivial(('multi', tuple(order), tuple(perm)))


WPOOL = ['A', 'B', 'C', 'D', 'E', 'F']
WIDE_STATES = [[1, 2, 3, 1, 2, 1], [0, 5, 1, 3, 0, 2], [60, 51, 120, 75, 200, 50], [1000, 3, 2, 1, 1, 70], [4, 4, 4, 4, 4, 4], [2, 1, 0, 1, 2, 3]]
WIDE_REAL = [[0.5, 2.5, 1.25, 3.0, 0.75, 1.5], [60.5, 0.01, 1e3, 7.0, 2.0, 1e-3]]


def wide_menu():
    ID = lambda s_: ('id', s_)
    return [dict(reactants=list('ABCDE'), products=['F'], kind='massaction', k=0.3),
            dict(reactants=list('FEDCBA'), products=[], kind='massaction', k=1e-3),
            dict(reactants=list('AABBC'), products=['D'], kind='massaction', k=0.02),
            dict(reactants=list('DDDDD'), products=['E'], kind='massaction', k=0.5),
            dict(reactants=list('EFEFE'), products=['A'], kind='massaction', k=0.1),
            dict(reactants=list('ABABAB'), products=['C'], kind='massaction', k=2.0),
            dict(reactants=['F'], products=['E'], kind='massaction', k=1.7),
            dict(reactants=['E', 'F'], products=['D'], kind='massaction', k=0.9),
            dict(reactants=['D', 'D'], products=['F'], kind='massaction', k=0.4),
            dict(reactants=[], products=['F'], kind='hillpositive', k=1.5, K=40.0, n=2.0, s1='E'),
            dict(reactants=[], products=['D'], kind='hillnegative', k=2.5, K=2.0, n=3.0, s1='F'),
            dict(reactants=['E'], products=['E', 'A'], kind='proportionalhillpositive', k=0.7, K=30.0, n=1.5, s1='F', d='E'),
            dict(reactants=['F'], products=['F', 'B'], kind='proportionalhillnegative', k=0.6, K=3.0, n=2.0, s1='D', d='F'),
            dict(reactants=['C'], products=['F'], kind='general', rate=('*', ('num', 0.25), ('*', ID('C'), ID('F')))),
            dict(reactants=[], products=['A'], kind='massaction', k=3.0)]


def wide(c, item):
    """beyond the small pool: 6 species, reactant lists of length 5-6, 8-15 reactions per model, counts up to 1000 and
    non-integer concentrations; every entry of the plain and safe interface loops against its closed form"""
    from bioscrape.types import Model
    from bioscrape.simulator import ModelCSimInterface, SafeModelCSimInterface
    from ..ref import crn
    from ..modelspec import reaction_tuple
    order, idx = item
    menu = wide_menu()
    rxs = [menu[i] for i in idx]
    m = Model(species=list(order), reactions=[reaction_tuple(r) for r in rxs], initial_condition_dict={s_: 1 for s_ in WPOOL})
    sp = dict(species=list(order), reactions=rxs, params={}, x0={})
    SSd = crn.stoich(sp)
    ifaces = {'plain': ModelCSimInterface(m), 'safe': SafeModelCSimInterface(m)}
    props = m.get_propensities()
    params = m.get_parameter_values()
    s2i = m.get_species2index()
    c.count('states')
    for mode in MODES:
        for xs in WIDE_STATES + (WIDE_REAL if mode in ('det', 'vol') else []):
            x = dict(zip(WPOOL, [float(v) for v in xs]))
            st = np.zeros(len(WPOOL))
            for sname, i in s2i.items():
                st[i] = x[sname]
            for V in ((1.0,) if mode in ('det', 'stoch') else (0.5, 3.0)):
                for route, iface in ifaces.items():
                    got = list(iface.py_verif_compute_propensities(st, 0.0, V, mode))
                    exp = crn.rates(sp, x, mode, V, 0.0, route == 'safe', None, SSd)
                    if route == 'plain':
                        # the bare propensity objects as a third route
                        bare = []
                        for pr in props:
                            bare.append(pr.py_get_propensity(st, params, 0.0) if mode == 'det' else
                                        pr.py_get_volume_propensity(st, params, V, 0.0) if mode == 'vol' else
                                        pr.py_verif_get_stochastic_propensity(st, params, 0.0) if mode == 'stoch' else
                                        pr.py_verif_get_stochastic_volume_propensity(st, params, V, 0.0))
                        routes = (('plain', got), ('bare', bare))
                    else:
                        routes = (('safe', got),)
                    for rname, vals in routes:
                        c.count('evaluations', len(rxs)); c.count('transitions', len(rxs))
                        for j in range(len(rxs)):
                            if not rel_close(float(vals[j]), float(exp[j]), RTOL, 1e-300):
                                c.violation('C01/wide/%s/%s/%s' % (rxs[j]['kind'], mode, rname), 'reaction %d of %d (%s, reactants %s) has rate %r at %s V=%s, closed form %r' % (
                                    j, len(rxs), rxs[j]['kind'], rxs[j]['reactants'], float(vals[j]), x, V, float(exp[j])),
                                    dict(spec=dict(kind='wide', order=list(order), idx=list(idx)), x=x, mode=mode, route=rname))
                                return
    c.nontrivial(('wide', tuple(order), tuple(idx)))


def shared_dict(c, item):
    """two (three) mass-action reactions declared with ONE parameter dictionary object p = {'k': ...}: each keeps its own reactants"""
    from bioscrape.types import Model
    from bioscrape.simulator import ModelCSimInterface, SafeModelCSimInterface
    from ..ref import crn
    how, lists = item
    p_ = {'k': 0.7}
    tuples = [(list(r), list(pr), 'massaction', p_) for r, pr in lists]
    if how == 'constructor':
        m = Model(species=list(POOL), reactions=tuples, initial_condition_dict={s_: 1 for s_ in POOL})
    else:
        m = Model(species=list(POOL), initial_condition_dict={s_: 1 for s_ in POOL})
        for t in tuples:
            m.create_reaction(*t)
        m.py_initialize()
    rxs = [dict(reactants=list(r), products=list(pr), kind='massaction', k=0.7) for r, pr in lists]
    sp = dict(species=list(POOL), reactions=rxs, params={}, x0={})
    SSd = crn.stoich(sp)
    s2i = m.get_species2index()
    c.count('states')
    for route, iface in (('plain', ModelCSimInterface(m)), ('safe', SafeModelCSimInterface(m))):
        for xs in itertools.product((0, 1, 2, 3), repeat=3):
            x = dict(zip(POOL, [float(v) for v in xs]))
            st = np.zeros(3)
            for sname, i in s2i.items():
                st[i] = x[sname]
            for mode in MODES:
                got = iface.py_verif_compute_propensities(st, 0.0, 2.0, mode)
                exp = crn.rates(sp, x, mode, 2.0, 0.0, route == 'safe', None, SSd)
                c.count('evaluations', len(rxs)); c.count('transitions', len(rxs))
                for j in range(len(rxs)):
                    if not rel_close(float(got[j]), float(exp[j]), RTOL, 1e-300):
                        c.violation('C01/shared-parameter-dict/%s/%s' % (mode, route), 'reaction %d (%s ->) declared with a shared parameter dictionary has rate %r at %s, '
                                    'closed form %r' % (j, rxs[j]['reactants'], float(got[j]), x, float(exp[j])),
                                    dict(spec=dict(kind='shared', how=how, lists=[[list(a), list(b)] for a, b in lists]), x=x, mode=mode, route=route))
                        return
    c.nontrivial(('shared', how, repr(lists)))


def run(ctx):
    sides = [(['A', 'B'], ['C']), (['C'], ['A']), (['A', 'A', 'B'], ['C']), (['B'], []), ([], ['A'])]
    sh = [(how, list(combo)) for how in ('constructor', 'create_reaction') for k_ in (2, 3) for combo in itertools.permutations(sides, k_)]
    pmap(shared_dict, sh, ctx, nshards=32)
    perms = list(itertools.permutations(range(6), 4 if ctx.quick else 6))
    if ctx.quick:
        perms = perms[::4]
    pmap(multi_reaction, [(o, p_) for o in ORDERS for p_ in perms], ctx, nshards=64)
    n_menu = len(wide_menu())
    worders = [list(WPOOL), list(reversed(WPOOL)), ['D', 'A', 'F', 'B', 'E', 'C']]
    witems = []
    for o in worders:
        for size in ((8, 15) if ctx.quick else range(5, 16)):
            for rot in range(0, n_menu, 3 if ctx.quick else 1):
                witems.append((o, [(rot + i) % n_menu for i in range(size)]))
                witems.append((o, [(rot - i) % n_menu for i in range(size)]))
    pmap(wide, witems, ctx, nshards=64)
    sp = specs(ctx.tier)
    al = alphabets(ctx.tier)
    ctx.bounds = dict(alphabets=al, models=len(sp), wide_models=len(witems), reactant_sequences='all orderings of length 0..%d over A,B,C' % al['maxlen'])
    ctx.rule = ('E2: every reactant sequence of length 0..4 over {A,B,C} (x numeric k / named k / explicit species string) '
                'and every Hill family x s1 x d x numeric/named, in 2 species declaration orders; each crossed with the full '
                'state/parameter/volume alphabets in 4 modes x 3 routes (bare propensity, plain interface, safe interface); plus ordered selections of 4 (thorough: all 6) reactions from a 6-reaction menu in one model, every entry of the plain and safe interface loops at every state of {0..3}^3; and ordered pairs / triples of mass-action reactions declared with one shared parameter dictionary object; and a wide family (6 species in 3 declaration orders, rotations of a 15-reaction menu with reactant lists of length 5-6, all Hill families and a general rate, 5..15 reactions per model, counts up to 1000 and non-integer concentrations, V in {0.5, 3}) through bare propensities and both interface loops. '
                'states = models built; transitions = rate evaluations on the implementation. A case (kind, multiset/hill '
                'configuration, parameter form, declaration order, mode) is non-trivial when at least one of its points has a '
                'non-zero closed form that, for repeated reactants, differs from the multiplicity-free form.')
    ctx.assumptions = ['closed forms as documented in the START-HERE notebook', 'relative tolerance 1e-12',
                       'stochastic modes are evaluated at integer states only']
    pmap(worker, [(ctx.tier, s) for s in sp], ctx, nshards=128)


def replay(ctx, case):
    if case['spec'].get('kind') == 'shared':
        return shared_dict(ctx, (case['spec']['how'], [(a, b) for a, b in case['spec']['lists']]))
    if case['spec'].get('kind') == 'wide':
        return wide(ctx, (case['spec']['order'], case['spec']['idx']))
    if case['spec'].get('kind') == 'multi':
        return multi_reaction(ctx, (case['spec']['order'], case['spec']['perm']))
    al = alphabets('thorough')
    al.update(sint=sorted(set(al['sint'] + [v for v in case['x'].values() if float(v).is_integer()])),
              sreal=sorted(set(al['sreal'] + list(case['x'].values()))))
    evaluate_spec(ctx, case['spec'], al, stop_at_first=True)
