"""C06 - every stochastic trajectory is a feasible reaction path (engine E1).

Oracle on the implementation's output only: lattice membership of consecutive row differences, integrality,
conservation laws, non-negativity (mass action, and every type in safe mode), absorption at zero propensity.
Scripts: (a) the C05-style reference-led exploration (plain, safe, volume, delay simulators) and
(b) raw lattice scripts over a fixed 4-letter alphabet, which do not depend on the reference mapping."""
import itertools
from fractions import Fraction
import numpy as np
from ..core import pmap
from .. import explore as EXP
from .. import e1
from ..nets import spec, ma, hill, gen, ssa_networks, big_networks
from ..ref import ssa as RS, crn

A, B, C, E = 'A', 'B', 'C', 'E'
TIMES = [0.0, 0.25, 0.5, 0.75, 1.0]
LATTICE = [0.02, 0.3, 0.6, 0.97]


def extra_networks(n0, k1, k2):
    """consuming reactions with non-mass-action rates (safe mode), delayed reactants"""
    return [
        spec('S1_hill_consumer', [A, B], {A: n0, B: 1}, [hill('hillnegative', [A, A], [B], k1, 2.0, 2.0, B), ma([B], [A], k2)]),
        spec('S2_general_consumer', [A, B], {A: n0, B: 0}, [gen([A], [B], ('+', ('num', 0.7), ('id', B))), ma([B], [], k2)]),
        spec('S3_prophill_consumer', [A, B, E], {A: n0, B: 0, E: 1},
             [hill('proportionalhillpositive', [A, E], [B], k1, 1.0, 1.0, A, E), ma([B], [A, E], k2)]),
        spec('S4_delayed_reactant', [A, B, C], {A: n0, B: 0, C: 1},
             [dict(ma([A], [B], k1), delay=dict(type='fixed', delay=0.3, reactants=[C], products=[])), ma([B], [A, C], k2)]),
        spec('S5_const_consumer', [A], {A: n0}, [gen([A], [], ('num', 2.0))]),
        # consumed at the firing time and given back by the delayed part (gene busy during transcription), non-mass-action rate
        spec('S6_returned_reactant', [A, B, C], {A: n0, B: 0, C: 3},
             [dict(hill('hillpositive', [A], [], k1, 2.0, 1.0, C), delay=dict(type='fixed', delay=0.6, reactants=[], products=[A, B])), ma([B], [], k2)]),
        # a Gaussian delay with half of its mass below zero (a negative sample completes the reaction at once), and a Gamma delay
        spec('S8_gaussian_negative', [A, B], {A: n0 + 1, B: 0},
             [dict(ma([A], [], k1), delay=dict(type='gaussian', mean=0.05, std=0.5, reactants=[], products=[B]))]),
        spec('S9_gamma_delay', [A, B, C], {A: n0 + 1, B: 0, C: 0},
             [dict(ma([A], [C], k1), delay=dict(type='gamma', k=1.5, theta=0.2, reactants=[], products=[B, B])), ma([B], [], k2)]),
        # order three with a repeated reactant, its species string written with blanks around the stars
        spec('S10_spaced_species_string', [A, B, C], {A: n0 + 1, B: 2, C: 0},
             [ma([A, A, B], [C], k1, ma_species_text='A * A * B'), ma([C], [A, A, B], k2)]),
        # the under-supplied reactions are NOT the first ones of the model (per-reaction scan state must be reset)
        spec('S7_late_consumers', [A, B, C], {A: n0, B: 1, C: 2},
             [ma([B], [A], k2), gen([A], [B], ('num', 1.7)), gen([C], [], ('num', 1.1)), gen([A, C], [B], ('num', 0.6))]),
    ]


def nullspace_int(S):
    """integer basis of the left null space of S (rows = species): vectors w with w.S = 0, via fractions"""
    ns, nr = len(S), len(S[0]) if S else 0
    M = [[Fraction(S[i][j]) for i in range(ns)] for j in range(nr)]   # nr x ns, solve M w = 0
    piv, r = [], 0
    for col in range(ns):
        p = next((i for i in range(r, len(M)) if M[i][col] != 0), None)
        if p is None:
            continue
        M[r], M[p] = M[p], M[r]
        M[r] = [v / M[r][col] for v in M[r]]
        for i in range(len(M)):
            if i != r and M[i][col] != 0:
                f = M[i][col]
                M[i] = [a - f * b for a, b in zip(M[i], M[r])]
        piv.append(col); r += 1
    free = [cidx for cidx in range(ns) if cidx not in piv]
    basis = []
    for f in free:
        w = [Fraction(0)] * ns
        w[f] = Fraction(1)
        for i, pc in enumerate(piv):
            w[pc] = -M[i][f]
        den = 1
        for v in w:
            den = den * v.denominator // np.gcd(den, v.denominator)
        basis.append([int(v * den) for v in w])
    return basis


_CONE_CACHE = {}


def in_cone(delta, cols, max_events):
    """is delta a non-negative integer combination of the columns with at most max_events terms?
    Small cases by enumeration; otherwise the minimum number of terms from an exact integer programme (cached)."""
    nr = len(cols)
    if all(d == 0 for d in delta):
        return True
    key = (tuple(delta), tuple(map(tuple, cols)))
    if key not in _CONE_CACHE:
        _CONE_CACHE[key] = min_terms(list(delta), cols)
    need = _CONE_CACHE[key]
    return need is not None and need <= max_events


def min_terms(delta, cols):
    """minimum number of columns (with repetition) that sum to delta; None if there is no such combination"""
    nr = len(cols)

    def rec(j, rem, left):
        if all(v == 0 for v in rem):
            return 0
        if j == nr or left == 0:
            return None
        col = cols[j]
        best = None
        for n in range(left + 1):
            r2 = [a - n * b for a, b in zip(rem, col)]
            sub = rec(j + 1, r2, left - n if best is None else min(left - n, best - n - 1))
            if sub is not None and (best is None or sub + n < best):
                best = sub + n
            if best is not None and n + 1 >= best:
                break
        return best
    small = rec(0, list(delta), 3)
    if small is not None:
        return small
    from scipy.optimize import milp, LinearConstraint, Bounds
    A = np.array(cols, dtype=float).T
    res = milp(c=np.ones(nr), constraints=LinearConstraint(A, np.array(delta, dtype=float), np.array(delta, dtype=float)),
               integrality=np.ones(nr), bounds=Bounds(0, np.inf))
    if not res.success:
        return None
    n = np.round(res.x)
    if not np.array_equal(A @ n, np.array(delta, dtype=float)) or n.min() < 0:
        raise RuntimeError('integer programme returned a non-solution for %s' % (delta,))
    return int(n.sum())


def invariants(sp, cfg, rows, consumed, massaction_only, pending_cols=None):
    S, Sd = crn.stoich(sp)
    ns, nr = len(S), len(sp['reactions'])
    full = [[S[i][j] + Sd[i][j] for i in range(ns)] for j in range(nr)]
    cols = list(full)
    if cfg['sim'] == 'delay':
        cols = [[S[i][j] for i in range(ns)] for j in range(nr)] + [[Sd[i][j] for i in range(ns)] for j in range(nr)]
        cols = [c_ for c_ in cols if any(c_)]
    for r in rows:
        if any(v != int(v) for v in r):
            return 'integrality', 'non-integer count in row %s' % r
    if (massaction_only and cfg['sim'] != 'delay') or (cfg['safe'] and cfg['sim'] != 'delay'):
        for r in rows:
            if min(r) < 0:
                return 'negative', 'negative count in row %s (%s)' % (r, 'safe mode' if cfg['safe'] else 'mass action')
    elif cfg['safe'] and cfg['sim'] == 'delay':
        # with the delay simulator a species that is only consumed at firing times (never by a delayed part) cannot go negative in safe mode
        for i in range(ns):
            if all(Sd[i][j] >= 0 for j in range(nr)):
                for r in rows:
                    if r[i] < 0:
                        return 'negative', 'negative count of %s in row %s (safe mode, species never consumed by a delayed part)' % (sp['species'][i], r)
    for a, b in zip(rows, rows[1:]):
        d = [int(y - x) for x, y in zip(a, b)]
        if not in_cone(d, cols, consumed):
            return 'lattice', 'row change %s is not a non-negative integer combination of reaction stoichiometries' % d
    if cfg['sim'] != 'delay':
        for w in nullspace_int([[S[i][j] + Sd[i][j] for j in range(nr)] for i in range(ns)]):
            tot = [sum(wi * v for wi, v in zip(w, r)) for r in rows]
            if any(t != tot[0] for t in tot):
                return 'conservation', 'conserved quantity %s changes along the rows: %s' % (w, tot)
    return None


def configs(tier):
    out = []
    params = [(2, 1.5, 0.5)] if tier == 'quick' else [(2, 1.5, 0.5), (3, 0.7, 2.0)]
    for n0, k1, k2 in params:
        for sp in ssa_networks(n0, k1, k2):
            ma_only = all(r['kind'] == 'massaction' for r in sp['reactions'])
            for sim in ('ssa', 'volume', 'delay'):
                for safe in (False, True):
                    out.append(dict(spec=sp, sim=sim, safe=safe, ma_only=ma_only, bound=2))
        for sp in extra_networks(n0, k1, k2):
            for sim in ('ssa', 'volume', 'delay'):
                out.append(dict(spec=sp, sim=sim, safe=True, ma_only=False, bound=2))
                if sp['name'].startswith('S10'):
                    # pure mass action: also without the safe interface (which would hide a wrong combinatorial rate)
                    out.append(dict(spec=sp, sim=sim, safe=False, ma_only=True, bound=2))
                if sim != 'volume':
                    # the same network reached through edits with rejected create_reaction calls in between
                    out.append(dict(spec=sp, sim=sim, safe=True, ma_only=False, bound=1, edited=True))
                if sim == 'delay':
                    out.append(dict(spec=sp, sim=sim, safe=True, ma_only=False, bound=1, entry=True))
    # seven species / eight channels and ten channels (small counts, so that the path search stays bounded)
    for sp in big_networks():
        if len(sp['reactions']) >= 8:
            for sim in ('ssa', 'volume', 'delay'):
                for safe in (False, True):
                    out.append(dict(spec=sp, sim=sim, safe=safe, ma_only=True, bound=1, scan_max=2))
    return out


def absorbed(sp, cfg, rows, V):
    """if a row's total propensity (reference, stochastic form) is zero and nothing is queued, later rows equal it"""
    net = RS.Net(sp, 'stochvol' if cfg['sim'] == 'volume' else 'stoch', cfg['safe'])
    P = dict(sp.get('params', {}))
    for i, r in enumerate(rows[:-1]):
        x = dict(zip(sp['species'], r))
        if min(r) < 0:
            continue
        if sum(net.props(x, P, 0.0, V)) == 0 and any(rr != r for rr in rows[i + 1:]):
            return 'absorption', 'row %d %s has zero total propensity but later rows differ: %s' % (i, r, rows[i + 1:])
    return None


def run_config(c, cfg):
    sp = cfg['spec']
    impl = e1.Impl(sp, cfg['safe'], edited=cfg.get('edited', False))
    sim = cfg['sim']
    V = 2.0
    has_delay = any(r.get('delay') for r in sp['reactions'])
    net = RS.Net(sp, 'stochvol' if sim == 'volume' else 'stoch', cfg['safe'])
    qdt = TIMES[1] - TIMES[0]
    states = set()
    nviol = [0]
    template = e1.TemplateQueue(len(sp['reactions']), len(TIMES), qdt)

    def impl_run(us):
        if sim == 'ssa':
            return impl.run_ssa(us, TIMES, dt=qdt)
        if sim == 'volume':
            return e1.run_volume(impl, us, TIMES, qdt, dict(type='const', V=V))
        if cfg.get('entry'):
            # through py_simulate_model(delay=True), which makes its own queue: consecutive runs (also of other models of the same
            # shape) must each start from an empty one
            from bioscrape.simulator import py_simulate_model
            from ..util import Stream
            impl.start(None, 0.0, qdt)
            with Stream(us) as st:
                res = py_simulate_model(np.array(TIMES), Model=impl.model, stochastic=True, delay=True, safe=cfg['safe'], return_dataframe=False)
            fq = res.py_get_delay_queue()
            return dict(rows=impl.rows(res.py_get_result()), consumed=st.consumed, overrun=st.overrun, queue=e1._drain(fq.py_copy(), len(sp['reactions']), len(TIMES)),
                        queue_next_time=None)
        # every run gets its queue as a copy of one template (independence of copies is part of what makes a path feasible)
        return e1.run_delay(impl, us, TIMES, qdt, len(TIMES), dt=qdt, template=template)

    def judge(us, tag, letters=None):
        got = impl_run(us)
        if sim == 'delay' and not cfg.get('entry'):
            # differential: the same script on a queue that is a copy of the shared template and on a brand-new queue
            fresh_q = e1.run_delay(impl, us, TIMES, qdt, len(TIMES), dt=qdt)
            if got.get('template_touched'):
                c.violation('C06/delay/%s/%s/template-copy-differs' % ('safe' if cfg['safe'] else 'plain', sp['name']),
                            'a run on a py_copy() of the template queue wrote into the template itself (copies must be independent)',
                            dict(cfg=cfg, us=us, rows=got['rows'], source=tag, letters=letters))
            if fresh_q['rows'] != got['rows'] or fresh_q['queue'] != got['queue']:
                c.violation('C06/delay/%s/%s/template-copy-differs' % ('safe' if cfg['safe'] else 'plain', sp['name']),
                            'the same script gives %s on a copy of the template queue and %s on a new queue (copies must be independent)' % (
                                got['rows'], fresh_q['rows']), dict(cfg=cfg, us=us, rows=got['rows'], source=tag, letters=letters))
        c.count('traces'); c.count('evaluations')
        rows = got['rows']
        # every firing consumes two draws; draws beyond the script (constant tail) count as well
        draws = got['consumed'] + got.get('overrun', 0)
        consumed = draws + 1 if sim == 'delay' else draws // 2 + 1      # a delivery is a term of its own and draws nothing
        bad = invariants(sp, cfg, rows, consumed, cfg['ma_only'])
        if not bad and not (sim == 'delay' and has_delay):
            bad = absorbed(sp, cfg, rows, V)
        if not bad and sim == 'delay' and rows and got.get('queue') is not None:
            # accounting with what is still queued: for every conservation law w of the complete (immediate + delayed) network,
            # w.(last row) + w.(delayed parts of the pending deliveries) = w.(initial state); with an empty queue this is the law itself
            S_, Sd_ = crn.stoich(sp)
            nr_ = len(sp['reactions'])
            x0_ = [float(sp['x0'][s_]) for s_ in sp['species']]
            pend_ = [sum(slot[j] for slot in got['queue']) for j in range(nr_)]
            for w in nullspace_int([[S_[i][j] + Sd_[i][j] for j in range(nr_)] for i in range(len(x0_))]):
                a0 = sum(wi * v for wi, v in zip(w, x0_))
                a1 = sum(wi * v for wi, v in zip(w, rows[-1])) + sum(pend_[j] * sum(w[i] * Sd_[i][j] for i in range(len(x0_))) for j in range(nr_))
                if a0 != a1:
                    bad = ('conservation-after-drain', 'the conserved quantity %s was %s at the start and is %s at the end, pending deliveries %s included (last row %s)' % (
                        w, a0, a1, pend_, rows[-1]))
                    break
        if bad:
            key = 'C06/%s/%s/%s/%s' % (sim, 'safe' if cfg['safe'] else 'plain', sp['name'], bad[0])
            c.violation(key, bad[1], dict(cfg=cfg, us=us, rows=rows, source=tag, letters=letters))
        return got

    def factory():
        if sim == 'ssa':
            return RS.ssa(net, TIMES, dt=qdt)
        if sim == 'volume':
            return RS.volume_ssa(net, TIMES, qdt, dict(type='const', V=V))
        return RS.delay_ssa(net, TIMES, qdt, len(TIMES), dt=qdt)

    def on_trace(choices, menus, ref):
        got = judge(ref['us'], 'reference-led', [m.letters[ch].name for m, ch in zip(menus, choices)])
        c.count('transitions', len(choices))
        for v in ref['visited']:
            states.add(v[:2])
        if len(c.samples) < 1 and len(ref['us']) > 3:
            c.sample(dict(network=sp['name'], sim=sim, safe=cfg['safe'], us=ref['us'], rows=got['rows']))
    EXP.explore(factory, cfg['bound'], on_trace)
    if cfg['safe']:
        # the safe interface's requirement table, state by state (hook H3): an under-supplied reaction has propensity 0
        from ..modelspec import state_vector
        S, Sd = crn.stoich(sp)
        ns = len(sp['species'])
        for xs in itertools.product(range(cfg.get('scan_max', 3) + 1), repeat=ns):
            x = dict(zip(sp['species'], [float(v) for v in xs]))
            out = impl.iface.py_verif_compute_propensities(state_vector(impl.model, x), 0.0, V,
                                                           'stochvol' if sim == 'volume' else 'stoch')
            c.count('evaluations'); c.count('transitions')
            for j in range(len(sp['reactions'])):
                if not crn.safe_ok(sp, j, x, S, Sd) and out[j] != 0:
                    c.violation('C06/%s/safe/%s/undersupplied-propensity' % (sim, sp['name']),
                                'safe interface gives reaction %d propensity %r at state %s although a consumed species is '
                                'below its required count' % (j, float(out[j]), x), dict(cfg=cfg, us=[], rows=[], x=x))
    depth = cfg.get('lattice_depth', 5)
    for script in itertools.product(LATTICE, repeat=depth):
        judge(list(script), 'lattice')
        c.count('transitions', depth)
    c.count('states', len(states))
    c.nontrivial((sp['name'], sim, cfg['safe'], str(sp['x0']), bool(cfg.get('edited')), bool(cfg.get('entry'))))


def run(ctx):
    cfgs = configs(ctx.tier)
    depth = 5 if ctx.quick else 7
    for cf in cfgs:
        cf['lattice_depth'] = depth
    ctx.bounds = dict(configs=len(cfgs), cost_bound=2, lattice_alphabet=LATTICE, lattice_depth=depth, grid=TIMES)
    ctx.rule = ('E1: every C05 network (plain and safe) and five networks whose consuming reactions have Hill/general/constant rates or '
                'delayed reactants (safe mode), through SSASimulator, VolumeSSASimulator (V=2) and DelaySSASimulator; scripts: the '
                'reference-led choice tree to cost 2 plus every raw script over {0.02,0.3,0.6,0.97}^depth. The oracle reads only the '
                'implementation\'s rows: integrality, each row change is a non-negative integer combination of stoichiometric columns '
                '(bounded integer search), every integer conservation law (left null space by fractions) is constant, no negative '
                'count for mass action / safe mode, zero-propensity rows are absorbing; for the delay simulator, every conservation law of the complete network holds for the last row together with the delayed parts of what the returned queue still holds. states = distinct (state, grid index) '
                'visited; every (network, simulator, interface) configuration is counted once as non-trivial.')
    ctx.assumptions = ['stoichiometry by counting (vf/ref/crn.py); rows are compared with themselves, not with a reference trajectory']
    pmap(run_config, cfgs, ctx, nshards=len(cfgs))


def replay(ctx, case):
    cfg = case['cfg']
    sp = cfg['spec']
    impl = e1.Impl(sp, cfg['safe'])
    qdt = TIMES[1] - TIMES[0]
    us = case['us']
    if cfg['sim'] == 'ssa':
        got = impl.run_ssa(us, TIMES, dt=qdt)
    elif cfg['sim'] == 'volume':
        got = e1.run_volume(impl, us, TIMES, qdt, dict(type='const', V=2.0))
    else:
        got = e1.run_delay(impl, us, TIMES, qdt, len(TIMES), dt=qdt)
    bad = invariants(sp, cfg, got['rows'], got['consumed'] + got.get('overrun', 0) + 1, cfg['ma_only']) or absorbed(sp, cfg, got['rows'], 2.0)
    if bad:
        ctx.violation('C06/replay/' + bad[0], bad[1], case)
