"""C02 - rate and rule expressions evaluate to their mathematical meaning (engine E2)."""
import itertools, math
import numpy as np
from ..core import pmap
from ..ref import expr as EX

BIN = ['+', '-', '*', '/', '^']
UN = ['neg', 'exp', 'log', 'abs', 'step']
NUMS = [('num', 2), ('num', 0.5), ('num', '1e-3'), ('num', 3)]
# identifier pool: underscores, digits, leading underscore (p written _p or |p), single letters that clash with sympy
CONFIGS = {
    'cfg1': dict(species=['A', 'x2', 'C', 'O'], params=['k_1', 'a_b', 'p', 'Q', 'N', 'I', 'E', 'S']),
    'cfg2': dict(species=['Q', 'N', 'I', 'E', 'S', 'a_b'], params=['A', 'x2', 'C', 'O', 'k_1', 'p']),
}
IDS = ['A', 'x2', 'C', 'O', 'k_1', 'a_b', '_p', 'Q', 'N', 'I', 'E', 'S']
POINTS = [
    dict(A=2.0, x2=0.5, C=3.0, O=1.0, k_1=1.5, a_b=0.25, p=2.0, Q=4.0, N=0.75, I=1.25, E=0.6, S=5.0),
    dict(A=0.0, x2=3.0, C=1.0, O=2.0, k_1=-0.5, a_b=2.0, p=0.5, Q=1.0, N=3.0, I=0.2, E=2.5, S=0.1),
    dict(A=7.0, x2=1.0, C=0.0, O=4.0, k_1=2.5, a_b=-1.5, p=3.0, Q=0.3, N=1.0, I=6.0, E=1.0, S=2.0),
    dict(A=1.0, x2=2.0, C=5.0, O=0.0, k_1=0.1, a_b=1.0, p=-2.0, Q=2.0, N=0.0, I=3.0, E=4.0, S=1.5),
    dict(A=0.3, x2=6.0, C=2.0, O=3.0, k_1=4.0, a_b=0.7, p=1.0, Q=0.0, N=2.0, I=1.0, E=0.0, S=0.8),
    dict(A=3.0, x2=0.0, C=0.4, O=9.0, k_1=1.0, a_b=3.0, p=0.25, Q=6.0, N=5.0, I=0.0, E=3.0, S=4.0),
]
TIMES = [0.0, 1.75]
VOLS = [0.5, 2.0]


def numval(tr):
    return float(tr[1])


def sig_trees(subs_a, subs_b=None, minmax3=None):
    """every operator applied to every argument tuple"""
    subs_b = subs_a if subs_b is None else subs_b
    for op in BIN:
        for a in subs_a:
            for b in subs_b:
                yield (op, a, b)
    for op in UN:
        for a in subs_a:
            yield (op, a)
    for op in ('min', 'max'):
        for a in subs_a:
            for b in subs_b:
                yield (op, a, b)
    if minmax3:
        for op in ('min', 'max'):
            for a, b, c_ in itertools.product(minmax3, repeat=3):
                yield (op, a, b, c_)


def leaves_full():
    return NUMS + [('id', s) for s in IDS] + [('id', '|p'), ('t',), ('vol',)]


def trees(tier):
    """list of (depth class, tree); deterministic order"""
    out = []
    Lf = leaves_full()
    for l in Lf:
        out.append(('d0', l))
    for tr in sig_trees(Lf, minmax3=[('id', 'A'), ('num', 2), ('id', 'k_1')]):
        out.append(('d1', tr))
    Lr = [('num', 2), ('id', 'A'), ('id', 'k_1')] + ([('t',)] if tier == 'thorough' else [])
    d1r = Lr + list(sig_trees(Lr))
    if tier == 'quick':
        # depth 2: every operator over (depth<=1 subtree, leaf) and (leaf, depth<=1 subtree)
        for op in BIN + ['min', 'max']:
            for a in d1r:
                for b in Lr:
                    out.append(('d2', (op, a, b)))
                    if a not in Lr:
                        out.append(('d2', (op, b, a)))
        for op in UN:
            for a in d1r:
                out.append(('d2', (op, a)))
    else:
        for tr in sig_trees(d1r):
            out.append(('d2', tr))
        Lt = [('id', 'A'), ('num', 2)]
        d1t = Lt + list(sig_trees(Lt))
        d2t = list(sig_trees(d1t))
        for op in BIN + ['min', 'max']:
            for ai, a in enumerate(d2t):
                if ai % 3:
                    continue        # stated stride: every third depth-2 subtree
                for b in Lt:
                    out.append(('d3', (op, a, b)))
                    out.append(('d3', (op, b, a)))
        for op in UN:
            for a in d2t:
                out.append(('d3', (op, a)))
    # depths 4-5: systematic nesting (stated cap, not exhaustive)
    seeds = [('/', ('id', 'A'), ('+', ('id', 'k_1'), ('id', 'x2'))), ('^', ('id', 'A'), ('num', 2)), ('-', ('id', 'C'), ('id', 'A')),
             ('min', ('id', 'A'), ('*', ('num', 2), ('id', 'k_1'))), ('exp', ('neg', ('id', 'x2'))), ('step', ('-', ('id', 'A'), ('num', 1)))]

    def nest(t, thin=False):
        for op in UN:
            yield (op, t)
        for op in BIN:
            for leaf in ([('id', 'A')] if thin else [('id', 'A'), ('num', 2)]):
                yield (op, t, leaf)
                yield (op, leaf, t)
        yield ('min', t, ('id', 'k_1'))
        yield ('max', ('num', 0.5), t)
    level = seeds
    for k in range(3 if tier == 'thorough' else 2):
        nxt = []
        for t in level:
            for n in nest(t, thin=(k >= 1)):
                nxt.append(n)
        for n in nxt:
            out.append(('d%d' % (3 + k) if tier == 'quick' else 'd%d' % (3 + k), n))
        level = nxt[::3] if k >= 1 else nxt
    # literals of very small / very large magnitude, inside products and quotients that bring the value back to order 1
    # (an absolute comparison cannot see 1e-18 against 0; the rescaled value can), and n-ary min / max with the extreme
    # in every argument position
    for tiny, huge in (('1e-18', '1e18'), ('3e-25', '1e25'), ('2.5e-300', '1e300'), ('7e-17', '1e16')):
        T_, H_ = ('num', tiny), ('num', huge)
        half = ('num', '%g' % (float(tiny) / 2))
        # forms that sympy's automatic folding of numeric coefficients cannot collapse (no bare products of literals)
        out.append(('mag', ('log', ('*', T_, ('id', 'S')))))
        out.append(('mag', ('log', ('*', H_, ('id', 'S')))))
        out.append(('mag', ('/', T_, ('+', T_, ('*', T_, ('id', 'A'))))))
        out.append(('mag', ('/', ('id', 'C'), ('+', H_, ('*', H_, ('id', 'A'))))))
        out.append(('mag', ('*', H_, ('max', ('*', T_, ('id', 'A')), ('*', half, ('id', 'S'))))))
        out.append(('mag', ('*', H_, ('abs', ('-', ('*', T_, ('id', 'A')), ('*', half, ('id', 'S')))))))
        out.append(('mag', ('step', ('-', ('*', T_, ('id', 'S')), half))))
        out.append(('mag', ('*', ('exp', ('neg', ('*', T_, ('id', 'A')))), ('id', 'Q'))))
        out.append(('mag', ('*', ('*', T_, ('id', 'A')), H_)))
        out.append(('mag', ('^', ('+', T_, ('*', T_, ('id', 'A'))), ('num', 0))))
    four = [('id', 'A'), ('id', 'x2'), ('id', 'C'), ('id', 'O'), ('id', 'S')]
    for op in ('min', 'max'):
        for n_ in (3, 4, 5):
            for perm_ in itertools.permutations(four, n_):
                if n_ == 5 and perm_[0] != four[0] and perm_[-1] != four[0]:
                    continue
                out.append(('nary', (op,) + perm_))
        out.append(('nary', (op, ('id', 'A'), (op, ('id', 'C'), (op, ('id', 'S'), ('id', 'k_1'))))))
        out.append(('nary', (op, (op, ('id', 'A'), ('id', 'C')), (op, ('id', 'S'), ('id', 'k_1')))))
    return out


def env_for(point):
    e = dict(point)
    e['_p'] = point['p']
    e['|p'] = point['p']
    return e


def ref_values(tr):
    """reference value and tolerance scale at every evaluation point, or None where outside the finite domain"""
    vals = []
    for pi, pt in enumerate(POINTS):
        for t in TIMES:
            for V in VOLS + [None]:
                track = []
                try:
                    v = EX.ev(tr, env_for(pt), t, 1.0 if V is None else V, track)
                except (EX.Undefined, OverflowError, ZeroDivisionError, ValueError):
                    vals.append(None)
                    continue
                if any(k == 'step' and abs(a) < 1e-3 for k, a in track):
                    vals.append(None)
                    continue
                scale = max([a for k, a in track if k == 'abs'] + [1.0])
                if scale > 1e12:
                    vals.append(None)
                    continue
                vals.append((v, scale))
    return vals


def point_iter():
    for pi, pt in enumerate(POINTS):
        for t in TIMES:
            for V in VOLS + [None]:
                yield pi, pt, t, V


def arrays(cfg, pt):
    c = CONFIGS[cfg]
    s2i = {s: i for i, s in enumerate(c['species'])}
    p2i = {s: i for i, s in enumerate(c['params'])}
    st = np.array([pt[s] for s in c['species']], dtype=float)
    pr = np.array([pt[s] for s in c['params']], dtype=float)
    return s2i, p2i, st, pr


def compare(c, key, tr, text, route, got, ref, where):
    if ref is None:
        return
    v, scale = ref
    if got is None or not math.isfinite(got) or abs(got - v) > 1e-9 * (1.0 + scale):
        c.violation(key, '%s gives %r for %s at %s, the formula is %r' % (route, got, text, where, v),
                    dict(tree=tr, text=text, route=route, where=where))
        return True
    return False


def opkey(tr):
    return tr[0] if tr[0] not in ('num', 'id', 't', 'vol') else 'leaf'


def check_tree(c, item):
    import warnings
    from bioscrape.types import parse_expression, Model, StateDependentVolume
    dclass, tr, routes = item
    tr = EX.totuple(tr)
    refs = ref_values(tr)
    c.count('states')
    defined = sum(1 for r in refs if r is not None)
    ids = EX.idents(tr)
    texts = {'min': EX.render(tr), 'full': EX.render(tr, full=True)}
    if 'step' in repr(tr):
        texts['lower'] = EX.render(tr, step_name='heaviside')
    accepted_any = False
    for cfg in (('cfg1', 'cfg2') if dclass in ('d0', 'd1') else ('cfg1',)):
        conf = CONFIGS[cfg]
        pts = {pi: arrays(cfg, pt) for pi, pt in enumerate(POINTS)}
        s2i, p2i = pts[0][0], pts[0][1]
        # route 1: parse_expression -> Term
        for style, text in texts.items():
            try:
                term = parse_expression(text, s2i, p2i)
            except Exception:
                c.count('rejected')
                continue
            accepted_any = True
            c.count('accepted')
            if style == 'min' and dclass in ('d0', 'd1'):
                # the same text parsed again for a second index layout (the same names, species and parameters numbered in reverse):
                # nothing the first parse left behind may be re-used for it
                ns_, np_ = len(s2i), len(p2i)
                s2r = {k_: ns_ - 1 - v_ for k_, v_ in s2i.items()}
                p2r = {k_: np_ - 1 - v_ for k_, v_ in p2i.items()}
                # (two further layouts: both reversed; species reversed with the parameters numbered as before)
                for lname, s2x, p2x, rev_p in (('both reversed', s2r, p2r, True), ('species reversed', s2r, p2i, False)):
                    try:
                        term_r = parse_expression(text, s2x, p2x)
                    except Exception:
                        term_r = None
                    if term_r is None:
                        continue
                    stop_ = False
                    for (pi, pt, t, V), ref in zip(point_iter(), refs):
                        if pi > 1:
                            break
                        _, _, st, pr = pts[pi]
                        pr_x = pr[::-1].copy() if rev_p else pr
                        try:
                            got = term_r.py_evaluate(st[::-1].copy(), pr_x, t) if V is None else term_r.py_volume_evaluate(st[::-1].copy(), pr_x, V, t)
                        except Exception:
                            got = None
                        c.count('evaluations'); c.count('transitions')
                        if compare(c, 'C02/value/%s/parse_expression-second-layout' % opkey(tr), tr, text, 'parse_expression for a second index layout (%s)' % lname, got, ref,
                                   dict(cfg=cfg, point=pi, t=t, volume=V)):
                            stop_ = True
                            break
                    if stop_:
                        break
            for (pi, pt, t, V), ref in zip(point_iter(), refs):
                _, _, st, pr = pts[pi]
                try:
                    got = term.py_evaluate(st, pr, t) if V is None else term.py_volume_evaluate(st, pr, V, t)
                except Exception as e:
                    got = None
                c.count('evaluations'); c.count('transitions')
                if compare(c, 'C02/value/%s/parse_expression' % opkey(tr), tr, text, 'parse_expression(%s)' % style, got, ref,
                           dict(cfg=cfg, point=pi, t=t, volume=V)):
                    break
        if not routes or defined == 0:
            continue
        # routes 2..5 through a model: general propensity, assignment rule, parse_general_expression, growth law
        text = texts['min']
        sp_list = list(conf['species']) + ['Z']
        plist = [(p, POINTS[0][p]) for p in conf['params']] + [('_p', POINTS[0]['p'])]
        try:
            with warnings.catch_warnings():
                warnings.simplefilter('ignore')
                # (a second reaction whose rate reads every parameter with a weight of its own: used by the copied-model route)
                probe = ' + '.join('%d*%s' % (k_ + 2, p_) for k_, p_ in enumerate(conf['params']))
                m = Model(species=sp_list, reactions=[([], ['Z'], 'general', {'rate': text})] + ([([], ['Z'], 'general', {'rate': probe})] if dclass in ('d0', 'd1') else []),
                          parameters=plist,
                          rules=[('assignment', {'equation': 'Z = ' + text})],
                          initial_condition_dict={s: POINTS[0][s] for s in conf['species']})
                term2 = m.parse_general_expression(text)
                sdv = StateDependentVolume()
                sdv.setup(2.0, 0.0, text, m)
        except Exception:
            c.count('rejected_model')
            continue
        c.count('accepted_model')
        ms2i, mp2i = m.get_species2index(), m.get_params2index()
        prop = m.get_propensities()[0]
        rule = m.repeat_rules[0] if hasattr(m, 'repeat_rules') else None
        for (pi, pt, t, V), ref in zip(point_iter(), refs):
            if ref is None:
                continue
            st = np.zeros(len(ms2i)); pr = np.zeros(len(mp2i))
            for s, i in ms2i.items():
                st[i] = pt.get(s, 0.0)
            for p_, i in mp2i.items():
                pr[i] = pt['p'] if p_ == '_p' else pt.get(p_, 0.0)
            where = dict(cfg=cfg, point=pi, t=t, volume=V)
            try:
                g_prop = prop.py_get_propensity(st, pr, t) if V is None else prop.py_get_volume_propensity(st, pr, V, t)
                g_term = term2.py_evaluate(st, pr, t) if V is None else term2.py_volume_evaluate(st, pr, V, t)
            except Exception:
                g_prop = g_term = None
            c.count('evaluations', 2); c.count('transitions', 2)
            if compare(c, 'C02/value/%s/general-propensity' % opkey(tr), tr, text, 'general propensity', g_prop, ref, where):
                break
            if compare(c, 'C02/value/%s/parse_general_expression' % opkey(tr), tr, text, 'Model.parse_general_expression', g_term, ref, where):
                break
            if V is None:
                v, scale = ref
                if abs(v) < 50:
                    dt = 0.25
                    got = sdv.py_get_volume_step(st, pr, t, 1.5, dt)
                    exp = (math.exp(v * dt) - 1.0) * 1.5
                    c.count('evaluations'); c.count('transitions')
                    if not math.isfinite(got) or abs(got - exp) > 1e-9 * (1 + scale) * (1 + abs(exp)):
                        c.violation('C02/value/%s/growth-law' % opkey(tr), 'StateDependentVolume step %r for growth law %s, formula gives %r' % (
                            got, text, exp), dict(tree=tr, text=text, route='growth-law', where=where))
                        break
        # the expression on a pickled copy of the model that was then given one more parameter (index book-keeping of the copy):
        # evaluated with the copy's own parameter vector at the model's own point
        if dclass in ('d0', 'd1'):
            try:
                import pickle
                m2 = pickle.loads(pickle.dumps(m))
                m2.create_parameter('zz_new', 11.0)
                m2.py_initialize()
                prop2 = m2.get_propensities()[0]
                st2 = np.zeros(len(ms2i))
                for s_, i_ in m2.get_species2index().items():
                    st2[i_] = POINTS[0].get(s_, 0.0)
                got2 = prop2.py_get_propensity(st2, m2.get_parameter_values(), TIMES[0])
            except Exception:
                got2 = None
            ref0 = next((r_ for (pi_, pt_, t_, V_), r_ in zip(point_iter(), refs) if pi_ == 0 and t_ == TIMES[0] and V_ is None), None)
            c.count('evaluations'); c.count('transitions')
            compare(c, 'C02/value/%s/copied-and-extended-model' % opkey(tr), tr, text, 'general propensity of a pickled copy given one more parameter', got2, ref0,
                    dict(cfg=cfg, point=0, t=TIMES[0], volume=None))
            try:
                got3 = m2.get_propensities()[1].py_get_propensity(st2, m2.get_parameter_values(), TIMES[0])
            except Exception:
                got3 = None
            want3 = sum((k_ + 2) * POINTS[0][p_] for k_, p_ in enumerate(conf['params']))
            if got3 is None or abs(got3 - want3) > 1e-9 * (1 + abs(want3)):
                c.violation('C02/value/copied-and-extended-model/probe', 'on a pickled copy of the model that was given one more parameter the rate %s evaluates to %r, the formula gives %r' % (
                    probe, got3, want3), dict(tree=tr, text=text, route='copied-model', where=dict(cfg=cfg)))
        # the rule route needs the rule object
        try:
            rules = m.get_rules()
            robj = None
            from bioscrape.types import GeneralAssignmentRule
            robj = GeneralAssignmentRule()
            robj.initialize({'equation': 'Z = ' + text}, ms2i, mp2i, rule_frequency='repeated')
        except Exception:
            robj = None
        if robj is not None:
            zi = ms2i['Z']
            for (pi, pt, t, V), ref in zip(point_iter(), refs):
                if ref is None:
                    continue
                st = np.zeros(len(ms2i)); pr = np.zeros(len(mp2i))
                for s, i in ms2i.items():
                    st[i] = pt.get(s, 0.0)
                for p_, i in mp2i.items():
                    pr[i] = pt['p'] if p_ == '_p' else pt.get(p_, 0.0)
                try:
                    if V is None:
                        robj.py_execute_rule(st, pr, t, 0.25, True)
                    else:
                        robj.py_execute_volume_rule(st, pr, V, t, 0.25, True)
                    got = float(st[zi])
                except Exception:
                    got = None
                c.count('evaluations'); c.count('transitions')
                if compare(c, 'C02/value/%s/assignment-rule' % opkey(tr), tr, text, 'assignment rule', got, ref,
                           dict(cfg=cfg, point=pi, t=t, volume=V)):
                    break
    c.tally('accepted_by_operator', opkey(tr), 1 if accepted_any else 0)
    c.tally('seen_by_operator', opkey(tr))
    c.tally('trees_by_depth', dclass)
    if defined and accepted_any:
        c.nontrivial(texts['min'])
    if len(c.samples) < 2 and dclass in ('d2', 'd3') and defined:
        c.sample(dict(tree=texts['min'], full=texts['full'], depth=EX.depth(tr), defined_points=defined))


BAD_NAMES = ['zz', 'k_9', 'Ab', 'x', 'W']
BAD_FUNCS = ['sin(A)', 'floor(A)', 'A > 2', 'cos(k_1)*A', 'tan(A) + 1', 'sqrt(A) + foo(A)', 'Piecewise((1, A > 2), (0, True))']


def sim_route(c, item):
    """trees that mention the volume (and not the time), as the right-hand side of an assignment rule of a reaction-free model, through
    the simulators themselves: deterministic / SSA / delay runs read volume = 1, volume and delay+volume runs read the volume given"""
    import warnings
    from bioscrape.types import Model
    from bioscrape.simulator import py_simulate_model
    tr = EX.totuple(item)
    text = EX.render(tr)
    conf = CONFIGS['cfg1']
    pt = POINTS[item_point(tr)]
    c.count('states')
    plist = [(p_, pt[p_]) for p_ in conf['params']] + [('_p', pt['p'])]
    try:
        with warnings.catch_warnings():
            warnings.simplefilter('ignore')
            m = Model(species=list(conf['species']) + ['Z'], reactions=[], parameters=plist, rules=[('assignment', {'equation': 'Z = ' + text})],
                      initial_condition_dict={s_: pt[s_] for s_ in conf['species']})
    except Exception:
        c.count('rejected_model')
        return
    times = np.array([0.0, 0.25, 0.5])
    zi = m.get_species_list().index('Z')
    ok = False
    for mode, kw, V in (('det', dict(stochastic=False), None), ('ssa', dict(stochastic=True), None), ('delay', dict(stochastic=True, delay=True), None),
                        ('volume', dict(stochastic=True, volume=2.0), 2.0), ('delayvol', dict(stochastic=True, delay=True, volume=2.0), 2.0),
                        ('volume', dict(stochastic=True, volume=0.5), 0.5), ('delayvol', dict(stochastic=True, delay=True, volume=0.5), 0.5)):
        track = []
        try:
            v = EX.ev(tr, env_for(pt), 0.0, 1.0 if V is None else V, track)
        except (EX.Undefined, OverflowError, ZeroDivisionError, ValueError):
            continue
        if not math.isfinite(v) or any(k_ == 'step' and abs(a_) < 1e-3 for k_, a_ in track):
            continue
        scale = max([abs(v)] + [abs(a_) for _, a_ in track if isinstance(a_, float) and math.isfinite(a_)] + [1.0])
        try:
            with warnings.catch_warnings():
                warnings.simplefilter('ignore')
                res = py_simulate_model(times, Model=m, return_dataframe=False, **kw)
            col = [float(r_[zi]) for r_ in res.py_get_result()]
        except Exception as e:
            c.violation('C02/value/%s/simulated-rule/%s' % (opkey(tr), mode), 'simulating a model whose rule is Z = %s raised %r' % (text, e), dict(tree=tr, text=text, route='sim', sim=True))
            return
        c.count('evaluations', len(col)); c.count('transitions', len(col))
        ok = True
        for k_, got in enumerate(col):
            if not math.isfinite(got) or abs(got - v) > 1e-9 * (1.0 + scale):
                c.violation('C02/value/%s/simulated-rule/%s' % (opkey(tr), mode), 'row %d of a %s run (volume %s) reports Z = %r for the rule Z = %s, the formula gives %r' % (
                    k_, mode, V, got, text, v), dict(tree=tr, text=text, route='sim', sim=True))
                return
    if ok:
        c.nontrivial('sim:' + text)


def item_point(tr):
    return 0


def check_reject(c, item):
    """an unknown name or an unsupported function must be rejected when the model is built"""
    import warnings
    from bioscrape.types import Model, parse_expression
    kind, text, tr = item
    conf = CONFIGS['cfg1']
    c.count('states')
    s2i = {s: i for i, s in enumerate(conf['species'])}
    p2i = {s: i for i, s in enumerate(conf['params'])}
    plist = [(p, POINTS[0][p]) for p in conf['params']] + [('_p', POINTS[0]['p'])]
    ic = {s: POINTS[0][s] for s in conf['species']}
    outcomes = {}

    def attempt(name, f):
        c.count('evaluations'); c.count('transitions')
        try:
            with warnings.catch_warnings():
                warnings.simplefilter('ignore')
                r = f()
            outcomes[name] = ('accepted', r)
        except Exception as e:
            outcomes[name] = ('rejected', type(e).__name__)
    def via_parse():
        term = parse_expression(text, s2i, p2i)
        return term.py_evaluate(np.array([POINTS[0][s] for s in conf['species']]), np.array([POINTS[0][s] for s in conf['params']]), 0.0)
    def via_model():
        m = Model(species=list(conf['species']), reactions=[([], ['A'], 'general', {'rate': text})], parameters=plist, initial_condition_dict=ic)
        st = np.array([POINTS[0][s] for s in m.get_species_list()])
        return m.get_propensities()[0].py_get_propensity(st, m.get_parameter_values(), 0.0)
    def via_rule():
        m = Model(species=list(conf['species']), reactions=[], parameters=plist, rules=[('assignment', {'equation': 'A = ' + text})], initial_condition_dict=ic)
        return 'model built'
    def via_pge():
        m = Model(species=list(conf['species']), reactions=[], parameters=plist, initial_condition_dict=ic)
        term = m.parse_general_expression(text)
        st = np.array([POINTS[0][s] for s in m.get_species_list()])
        return term.py_evaluate(st, m.get_parameter_values(), 0.0)
    def via_extension(how):
        # a model that was valid (and already simulated) is extended by a rule / reaction with the bad expression: EVERY later attempt
        # to build it must be rejected (two interfaces, an initialisation, a simulation), not only the first
        def f():
            from bioscrape.simulator import py_simulate_model, ModelCSimInterface
            m = Model(species=list(conf['species']), reactions=[(['A'], [], 'massaction', {'k': 'k_1'})], parameters=plist, initial_condition_dict=ic)
            py_simulate_model(np.linspace(0, 1, 3), Model=m, stochastic=False, return_dataframe=False)
            try:
                if how == 'rule':
                    m.create_rule('assignment', {'equation': 'x2 = ' + text})
                else:
                    m.create_reaction([], ['x2'], 'general', {'rate': text})
            except Exception:
                raise            # rejected at the edit itself: fine
            # (the first attempt that is accepted ends the case: simulating a model that carries an undefined name may never return)
            for k_, g in enumerate((lambda: ModelCSimInterface(m) and 'interface built',
                                    lambda: ModelCSimInterface(m) and 'second interface built',
                                    lambda: m.py_initialize() or 'initialised',
                                    lambda: py_simulate_model(np.linspace(0, 1, 3), Model=m, stochastic=False, return_dataframe=False).py_get_result()[-1].tolist())):
                try:
                    got_ = g()
                except Exception:
                    continue
                return 'build attempt %d was accepted: %s' % (k_, got_)
            raise ValueError('every build attempt was rejected')
        return f
    attempt('parse_expression', via_parse)
    attempt('extension-rule', via_extension('rule'))
    attempt('extension-reaction', via_extension('reaction'))
    attempt('general-propensity', via_model)
    attempt('assignment-rule', via_rule)
    attempt('parse_general_expression', via_pge)
    for route, (res, val) in outcomes.items():
        if res == 'accepted':
            c.violation('C02/reject/%s/%s' % (kind, route), '%s accepted %r (%s) and produced %r instead of rejecting it' % (route, text, kind, val),
                        dict(kind=kind, text=text, tree=tr, route=route))
    c.nontrivial('reject:' + text)


def reject_items(tier):
    out = []
    base = [t for d, t in trees('quick') if d == 'd1'][::(7 if tier == 'quick' else 2)]
    for tr in base:
        ids = sorted(EX.idents(tr))
        if not ids:
            continue
        for bad in (BAD_NAMES[:2] if tier == 'quick' else BAD_NAMES):
            # replace the first identifier leaf by an unknown name
            def sub(x, done=[False]):
                if x[0] == 'id' and not done[0]:
                    done[0] = True
                    return ('id', bad)
                return tuple(sub(y, done) if isinstance(y, tuple) else y for y in x)
            t2 = sub(tr, [False])
            out.append(('unknown-name', EX.render(t2), t2))
    for f in BAD_FUNCS:
        out.append(('unsupported-function', f, None))
    return out


def run(ctx):
    tl = trees(ctx.tier)
    items = []
    for i, (d, tr) in enumerate(tl):
        # model-building routes are five sympy parses per tree: all of depth <= 1, every 3rd deeper tree in the quick tier
        routes = d in ('d0', 'd1') or ctx.tier == 'thorough' or i % 3 == 0
        items.append((d, tr, routes))
    pmap(check_tree, items, ctx, nshards=256)
    simt = [tr for d_, tr in tl if d_ in ('d0', 'd1') and "('vol',)" in repr(EX.totuple(tr)) and "('t',)" not in repr(EX.totuple(tr))]
    pmap(sim_route, simt, ctx, nshards=64)
    rej = reject_items(ctx.tier)
    pmap(check_reject, rej, ctx, nshards=64)
    seen = ctx.notes.get('seen_by_operator', {})
    acc = ctx.notes.get('accepted_by_operator', {})
    if sum(acc.values()) * 2 < sum(seen.values()):
        ctx.harness_error('fewer than half of the in-signature trees were accepted by the parser: %s of %s' % (acc, seen))
    ctx.exhaustive = False
    ctx.bounds = dict(trees=len(tl), simulated_rule_trees=len(simt), reject_cases=len(rej), trees_by_depth=ctx.notes.get('trees_by_depth'),
                      exhaustive_depths='depth 0-1 over the full leaf set (22 leaves incl. both spellings of the leading-underscore parameter, '
                      't, volume) and both species/parameter splits; depth 2 over a reduced leaf set (thorough: full signature; quick: one '
                      'compound argument); depth 3 (thorough) over leaves {A, 2} with one compound argument (binary operators: every third depth-2 subtree); depths 3-5 by systematic nesting '
                      '(capped, not exhaustive)', points=len(POINTS) * len(TIMES) * (len(VOLS) + 1))
    ctx.rule = ('E2: expression trees over {+,-,*,/,^,unary -,exp,log,abs,Heaviside (both spellings),min,max (2 and 3 arguments)} and leaves '
                '{integers, decimals, scientific notation, species, parameters, t, volume} with the identifier pool {A,x2,k_1,a_b,_p/|p,C,O,Q,N,I,E,S} '
                'split between species and parameters in two ways; each tree is rendered minimally and fully parenthesised and sent through '
                'parse_expression (evaluate and volume_evaluate), a general propensity, Model.parse_general_expression, an assignment rule '
                '(plain and volume form) and a StateDependentVolume growth law, at 36 evaluation points; compared with a plain recursive '
                'evaluator wherever every subterm is finite and Heaviside arguments are >= 1e-3 from 0 (tolerance 1e-9*(1+max|subterm|)). '
                'Every depth<=1 tree that mentions the volume (and not the time) is also the rule of a reaction-free model run through the deterministic, SSA, delay, volume and delay+volume simulators (volume 2 and 0.5): every row must carry the formula\'s value, volume reading 1 where no volume is in play. Rejection: trees with one identifier replaced by an unknown name, and unsupported functions, must raise on every route, and a model that was valid, was simulated and is then extended by such a rule or reaction must be rejected at every later build attempt. '
                'states = trees; a tree is non-trivial when it is accepted and defined at >= 1 point; distinct by rendered text.')
    ctx.assumptions = ['a rejection of a well-formed tree is not a violation (the property constrains accepted expressions)',
                       'the leading-underscore spelling _p / |p denotes parameter p (model routes define p and _p with the same value)']


def replay(ctx, case):
    if case.get('sim'):
        return sim_route(ctx, EX.totuple(case['tree']))
    if case.get('kind'):
        check_reject(ctx, (case['kind'], case['text'], case.get('tree')))
    else:
        check_tree(ctx, ('d1', EX.totuple(case['tree']), True))
