"""C15 - the inference cost is the stated posterior on correctly aligned data (E2 + E3)."""
import itertools, math
import numpy as np
from ..core import pmap

MODELS = {
    'decay': dict(species=['A'], rx=[('A', None, 'k1')], params={'k1': 0.8}),
    'convert': dict(species=['A', 'B'], rx=[('A', 'B', 'k1'), ('B', None, 'k2')], params={'k1': 0.8, 'k2': 0.3}),
    'chain': dict(species=['A', 'B', 'C'], rx=[('A', 'B', 'k1'), ('B', 'C', 'k2'), ('C', None, 'k3')],
                  params={'k1': 0.8, 'k2': 0.3, 'k3': 0.5}),
}
DEFAULTS = {'A': 2.0, 'B': 0.5, 'C': 1.5}    # the model's own values: used for every species a trajectory's initial condition does not mention
GRIDS = [np.array([0.0, 0.25, 0.5, 1.0, 1.5]), np.array([0.0, 0.4, 0.8, 1.2, 2.0])]
THETAS = [[0.5], [1.3], [0.5], [-0.7], [2.2]]      # includes a repeat and an out-of-support point (uniform 0..3)


def build_model(name):
    from bioscrape.types import Model
    md = MODELS[name]
    rx = [([a], [b] if b else [], 'massaction', {'k': k}) for a, b, k in md['rx']]
    return Model(species=list(md['species']), reactions=rx, parameters=list(md['params'].items()),
                 initial_condition_dict={s: DEFAULTS[s] for s in md['species']})


def x_ref(name, params, ic, times):
    """closed form: x(t) = expm(K t) x0 for the linear network"""
    from scipy.linalg import expm
    md = MODELS[name]
    sp = md['species']
    K = np.zeros((len(sp), len(sp)))
    for a, b, k in md['rx']:
        i = sp.index(a)
        K[i, i] -= params[k]
        if b:
            K[sp.index(b), i] += params[k]
    x0 = np.array([ic.get(s, DEFAULTS[s]) for s in sp], dtype=float)
    return np.array([expm(K * t) @ x0 for t in times])


def make_case(name, N, meas, norm, icv, pcv, gridv, wrap_single):
    md = MODELS[name]
    sp = md['species']
    ics, pcs, grids = [], [], []
    for n in range(N):
        ic = {sp[0]: 4.0 + n}
        if icv == 'per-trajectory' and len(sp) > 1:
            ic[sp[1]] = (1.0 + 0.5 * n) if n % 2 == 0 else 0.0      # an explicit zero is a value, not 'unset'
        if icv == 'per-trajectory' and n == 2:
            ic[sp[0]] = 0.0
        ics.append(ic if icv != 'shared' else {sp[0]: 4.0})
        if pcv == 'none' or len(md['params']) < 2:
            pcs.append(None)
        elif pcv == 'equal-keys':
            pcs.append({'k2': 0.3 + 0.2 * n})
        else:   # key sets differ between trajectories
            pcs.append({'k2': 0.9} if n % 2 == 0 else ({'k3': 0.2} if 'k3' in md['params'] else {}))
        grids.append(GRIDS[n % 2] if gridv == 'per-trajectory' else GRIDS[0])
    return dict(model=name, N=N, meas=list(meas), norm=norm, ics=ics, pcs=pcs, grids=[g.tolist() for g in grids],
                icv=icv, pcv=pcv, wrap_single=wrap_single)


def data_frames(case, theta_true=0.9):
    import pandas as pd
    md = MODELS[case['model']]
    sp = md['species']
    dfs = []
    for n in range(case['N']):
        P = dict(md['params']); P['k1'] = theta_true
        if case['pcs'][n]:
            P.update(case['pcs'][n])
        t = np.array(case['grids'][n])
        X = x_ref(case['model'], P, case['ics'][n], t)
        d = {'time': t}
        for j, s in enumerate(sp):
            d[s] = X[:, j] + 0.1 * (j + 1) + 0.01 * n + 0.003 * np.arange(len(t))
        dfs.append(pd.DataFrame(d))
    return dfs


def setup(case, dfs, meas=None, order=None):
    from bioscrape.inference_setup import InferenceSetup
    m = build_model(case['model'])
    idx = list(order) if order is not None else list(range(case['N']))
    exp = [dfs[i] for i in idx]
    ics = [case['ics'][i] for i in idx]
    pcs = [case['pcs'][i] for i in idx]
    if case['icv'] == 'shared':
        ics = ics[0]
    pc_arg = None if all(p is None for p in pcs) else [p if p is not None else {} for p in pcs]
    if case['N'] == 1 and not case['wrap_single']:
        exp = exp[0]
        ics = ics[0] if isinstance(ics, list) else ics
        pc_arg = pc_arg[0] if pc_arg else None
    return InferenceSetup(Model=m, prior={'k1': ['uniform', 0.0, 3.0]}, params_to_estimate=['k1'], exp_data=exp,
                          measurements=list(meas if meas is not None else case['meas']), time_column='time',
                          initial_conditions=ics, parameter_conditions=pc_arg, norm_order=case['norm'],
                          sim_type='deterministic')


def ref_cost(case, dfs, theta):
    if not (0.0 <= theta <= 3.0):
        return -math.inf
    md = MODELS[case['model']]
    lp = math.log(1.0 / 3.0)
    tot = 0.0
    for n in range(case['N']):
        P = dict(md['params']); P['k1'] = theta
        if case['pcs'][n]:
            P.update(case['pcs'][n])
        t = np.array(case['grids'][n])
        X = x_ref(case['model'], P, case['ics'][n], t)
        for s in case['meas']:
            j = md['species'].index(s)
            tot += float(np.sum(np.abs(dfs[n][s].to_numpy() - X[:, j]) ** case['norm']))
    return lp - tot ** (1.0 / case['norm'])


def check_case(c, case):
    dfs = data_frames(case)
    c.count('states')
    key = 'C15/%s/' % ('multi-species' if len(case['meas']) > 1 else 'single-species')
    key += 'N%s/' % ('1' if case['N'] == 1 else '>1')
    try:
        ins = setup(case, dfs)
    except Exception as e:
        c.violation(key + 'setup-exception', 'InferenceSetup raised %r' % e, dict(case=case))
        return
    # alignment of the data array
    LL = np.asarray(ins.LL_data)
    for n in range(case['N']):
        for mi, s in enumerate(case['meas']):
            col = dfs[n][s].to_numpy()
            if LL.shape != (case['N'], len(col), len(case['meas'])) or not np.allclose(LL[n, :, mi], col, rtol=0, atol=1e-12):
                c.violation(key + 'data-alignment', 'LL_data[%d, :, %d] is not the column %s of trajectory %d: %s vs %s' % (
                    n, mi, s, n, LL[n, :, mi].tolist() if LL.ndim == 3 and LL.shape[0] > n and LL.shape[2] > mi else LL.shape, col.tolist()),
                    dict(case=case))
                break
    # histories: every prefix of every sequence over THETAS up to length 3 (values after a prefix == fresh value)
    fresh = {}
    for th in THETAS:
        f = setup(case, dfs)
        fresh[th[0]] = float(f.cost_function(list(th)))
        c.count('evaluations'); c.count('transitions')
        exp = ref_cost(case, dfs, th[0])
        got = fresh[th[0]]
        if (math.isinf(exp) and got != exp) or (math.isfinite(exp) and (not math.isfinite(got) or abs(got - exp) > 1e-5 * (1 + abs(exp)))):
            sub = 'pc-keys-differ/' if case['pcv'] == 'differing-keys' else ''
            c.violation(key + sub + 'value', 'cost(%r) = %r, stated posterior %r' % (th[0], got, exp), dict(case=case, theta=th[0]))
    L = case.get('hist_len', 3)
    for seq in itertools.product(range(len(THETAS)), repeat=L):
        h = setup(case, dfs)
        for i in seq:
            got = float(h.cost_function(list(THETAS[i])))
            c.count('evaluations'); c.count('transitions')
            ref = fresh[THETAS[i][0]]
            if got != ref and not (abs(got - ref) <= 1e-9 * (1 + abs(ref))):
                c.violation(key + 'history', 'cost(%r) = %r after history %s, %r on a fresh setup' % (
                    THETAS[i][0], got, [THETAS[j][0] for j in seq], ref), dict(case=case, seq=list(seq)))
                break
        c.count('traces')
    th = 1.3
    base = fresh[th]
    # permutations of the measurement columns and of the trajectories
    for perm in itertools.permutations(case['meas']):
        if list(perm) == case['meas']:
            continue
        p = setup(case, dfs, meas=perm)
        got = float(p.cost_function([th]))
        c.count('evaluations'); c.count('transitions')
        if abs(got - base) > 1e-9 * (1 + abs(base)):
            c.violation(key + 'measurement-order', 'cost %r with measurements %s, %r with %s' % (got, list(perm), base, case['meas']),
                        dict(case=case, perm=list(perm)))
    if case['N'] > 1:
        for order in itertools.permutations(range(case['N'])):
            if list(order) == list(range(case['N'])):
                continue
            p = setup(case, dfs, order=order)
            got = float(p.cost_function([th]))
            c.count('evaluations'); c.count('transitions')
            if abs(got - base) > 1e-9 * (1 + abs(base)):
                sub = 'pc-keys-differ/' if case['pcv'] == 'differing-keys' else ''
                c.violation(key + sub + 'trajectory-order', 'cost %r with trajectories in order %s, %r in the given order' % (
                    got, list(order), base), dict(case=case, order=list(order)))
    if len(case['meas']) > 1 or case['N'] > 1:
        c.nontrivial(repr(sorted((k, str(v)) for k, v in case.items())))
    if len(c.samples) < 2 and case['N'] > 1 and len(case['meas']) > 1:
        c.sample(dict(case=case, cost_at_1_3=base))


def reuse(c, item):
    """one InferenceSetup object, re-used for a second experiment through its setters (data with another time column, other
    initial / parameter conditions), prepared again: the cost is the posterior of the data now in force"""
    caseA, caseB, chain = item
    dfsA, dfsB = data_frames(caseA), data_frames(caseB, theta_true=1.1)
    c.count('states')
    key = 'C15/reuse/'
    try:
        ins = setup(caseA, dfsA)
        ins.cost_function([0.5])
        seq = [(caseB, dfsB)] + ([(caseA, dfsA), (caseB, dfsB)] if chain else [])
        for k, (cs, dfs) in enumerate(seq):
            fresh = setup(cs, dfs)          # what a new object is given: the same argument shapes through the setters
            ins.set_exp_data(fresh.exp_data)
            ins.set_initial_conditions(setup_args(cs)['initial_conditions'])
            ins.set_parameter_conditions(setup_args(cs)['parameter_conditions'])
            ins.prepare_inference()
            ins.setup_cost_function()
            for th in (1.3, 0.5, -0.7):
                got = float(ins.cost_function([th]))
                exp = ref_cost(cs, dfs, th)
                c.count('evaluations'); c.count('transitions'); c.count('traces')
                if (math.isinf(exp) and got != exp) or (math.isfinite(exp) and (not math.isfinite(got) or abs(got - exp) > 1e-5 * (1 + abs(exp)))):
                    c.violation(key + 'value', 're-used setup, experiment %d of the sequence: cost(%r) = %r, stated posterior of the data in force %r' % (
                        k + 2, th, got, exp), dict(reuse=[caseA, caseB, chain]))
                    return
        # the same object once more with the measured species listed in another order (same data): the value must not move
        if len(cs['meas']) > 1:
            ins.set_measurements(list(reversed(cs['meas'])))
            ins.prepare_inference()
            ins.setup_cost_function()
            for th in (1.3, 0.5):
                got = float(ins.cost_function([th]))
                exp = ref_cost(cs, dfs, th)
                c.count('evaluations'); c.count('transitions'); c.count('traces')
                if not math.isfinite(got) or abs(got - exp) > 1e-5 * (1 + abs(exp)):
                    c.violation(key + 'measurement-order', 're-used setup prepared again with the measurements in reverse order: cost(%r) = %r, stated posterior %r' % (
                        th, got, exp), dict(reuse=[caseA, caseB, chain]))
                    return
    except Exception as e:
        c.violation(key + 'exception', 're-using an InferenceSetup through its setters raised %r' % e, dict(reuse=[caseA, caseB, chain]))
        return
    c.nontrivial(('reuse', repr(sorted((k, str(v)) for k, v in caseA.items())), repr(sorted((k, str(v)) for k, v in caseB.items())), chain))


def setup_args(case):
    ics = list(case['ics'])
    pcs = list(case['pcs'])
    if case['icv'] == 'shared':
        ics = ics[0]
    pc_arg = None if all(p is None for p in pcs) else [p if p is not None else {} for p in pcs]
    if case['N'] == 1 and not case['wrap_single']:
        ics = ics[0] if isinstance(ics, list) else ics
        pc_arg = pc_arg[0] if pc_arg else None
    return dict(initial_conditions=ics, parameter_conditions=pc_arg)


def same_model(c, item):
    """two inference problems on the SAME Model object, a parameter that is not estimated moved with Model.set_params in between:
    each problem is the posterior for the model's parameters as they are when it is set up; evaluations of the two are interleaved"""
    import pandas as pd
    from bioscrape.inference_setup import InferenceSetup
    name, meas, N = item
    md = MODELS[name]
    c.count('states')
    m = build_model(name)
    others = [k_ for k_ in md['params'] if k_ != 'k1']
    grids = [GRIDS[n % 2] for n in range(N)]
    ics = [dict({s_: DEFAULTS[s_] for s_ in md['species']}, **{md['species'][0]: 4.0 + n}) for n in range(N)]

    def problem(pvals):
        dfs = []
        for n in range(N):
            X = x_ref(name, dict(pvals, k1=0.9), ics[n], grids[n])
            dfs.append(pd.DataFrame(dict(time=grids[n], **{s_: X[:, j] + 0.1 * (j + 1) + 0.01 * n for j, s_ in enumerate(md['species'])})))
        ins = InferenceSetup(Model=m, prior={'k1': ['uniform', 0.0, 3.0]}, params_to_estimate=['k1'], exp_data=dfs if N > 1 else dfs[0],
                             measurements=list(meas), time_column='time', initial_conditions=ics if N > 1 else ics[0], norm_order=2,
                             sim_type='deterministic')
        def expect(th):
            tot = 0.0
            for n in range(N):
                X = x_ref(name, dict(pvals, k1=th), ics[n], grids[n])
                for s_ in meas:
                    tot += float(np.sum(np.abs(dfs[n][s_].to_numpy() - X[:, md['species'].index(s_)]) ** 2))
            return math.log(1.0 / 3.0) - tot ** 0.5
        return ins, expect
    pA = dict(md['params'])
    insA, expA = problem(pA)
    vA = float(insA.cost_function([1.3]))
    pB = dict(pA)
    for k_ in others:
        pB[k_] = pA[k_] * 2.0 + 0.1
    m.set_params({k_: pB[k_] for k_ in others})
    insB, expB = problem(pB)
    for th, who in ((1.3, 'B'), (0.5, 'B'), (1.3, 'B')):
        ins, exp_f = (insB, expB)
        got = float(ins.cost_function([th]))
        exp = exp_f(th)
        c.count('evaluations'); c.count('transitions'); c.count('traces')
        if not math.isfinite(got) or abs(got - exp) > 1e-5 * (1 + abs(exp)):
            c.violation('C15/same-model/value', 'second problem on the same Model (after Model.set_params(%s)): cost(%r) = %r, stated posterior %r' % (
                {k_: pB[k_] for k_ in others}, th, got, exp), dict(same_model=[name, list(meas), N]))
            return
    if abs(vA - expA(1.3)) > 1e-5 * (1 + abs(vA)):
        c.violation('C15/same-model/value', 'first problem: cost(1.3) = %r, stated posterior %r' % (vA, expA(1.3)), dict(same_model=[name, list(meas), N]))
        return
    c.nontrivial(('same-model', name, tuple(meas), N))


def ramp(c, item):
    """a measured species defined by an assignment rule that reads the time (Y = m*t + A, A decaying with rate k1), trajectories
    whose time grids start at 0 and later: closed form A(t) = A0 exp(-k1 (t - t_first)), Y(t) = m t + A(t)"""
    import pandas as pd
    from bioscrape.types import Model
    from bioscrape.inference_setup import InferenceSetup
    starts, meas, norm = item
    c.count('states')
    m_ = 0.75
    grids = [np.array([s0 + d for d in (0.0, 0.25, 0.5, 1.0, 1.5)]) for s0 in starts]
    a0 = [4.0 + n for n in range(len(starts))]

    def traj(k1, n):
        t = grids[n]
        A_ = a0[n] * np.exp(-k1 * (t - t[0]))
        return dict(A=A_, Y=m_ * t + A_)
    dfs = []
    for n in range(len(starts)):
        tr = traj(0.9, n)
        dfs.append(pd.DataFrame(dict(time=grids[n], A=tr['A'] + 0.1 + 0.01 * n, Y=tr['Y'] + 0.2 + 0.003 * np.arange(5))))
    model = Model(species=['A', 'Y'], reactions=[(['A'], [], 'massaction', {'k': 'k1'})], parameters=[('k1', 0.8), ('m', m_)],
                  rules=[('assignment', {'equation': 'Y = m*t + A'})], initial_condition_dict={'A': 2.0, 'Y': 0.0})
    ins = InferenceSetup(Model=model, prior={'k1': ['uniform', 0.0, 3.0]}, params_to_estimate=['k1'], exp_data=dfs if len(dfs) > 1 else dfs[0],
                         measurements=list(meas), time_column='time', initial_conditions=[{'A': v} for v in a0] if len(dfs) > 1 else {'A': a0[0]},
                         norm_order=norm, sim_type='deterministic')
    for th in (0.5, 1.3, 0.5):
        got = float(ins.cost_function([th]))
        tot = 0.0
        for n in range(len(starts)):
            tr = traj(th, n)
            for s_ in meas:
                tot += float(np.sum(np.abs(dfs[n][s_].to_numpy() - tr[s_]) ** norm))
        exp = math.log(1.0 / 3.0) - tot ** (1.0 / norm)
        c.count('evaluations'); c.count('transitions'); c.count('traces')
        if not math.isfinite(got) or abs(got - exp) > 1e-5 * (1 + abs(exp)):
            c.violation('C15/time-rule/value', 'grids starting at %s, measured %s: cost(%r) = %r, stated posterior %r' % (list(starts), list(meas), th, got, exp),
                        dict(ramp=[list(starts), list(meas), norm]))
            return
    c.nontrivial(('ramp', tuple(starts), tuple(meas), norm))


def stochastic_alignment(c, item):
    """stochastic cost on a model whose trajectory is stream-independent (all rates zero): data equal to the constant
    state in the right column gives cost log-prior - 0; any misalignment of columns or trajectories changes it."""
    import pandas as pd
    from bioscrape.types import Model
    from bioscrape.inference_setup import InferenceSetup
    import bioscrape.random as br
    N, meas = item
    sp = ['A', 'B', 'C']
    t = np.array([0.0, 0.5, 1.0, 1.5])
    dfs, ics = [], []
    for n in range(N):
        ic = {'A': 3.0 + n, 'B': 7.0 + 2 * n, 'C': 11.0 + 3 * n}
        ics.append(ic)
        dfs.append(pd.DataFrame(dict(time=t, **{s: np.full(len(t), ic[s]) for s in sp})))
    costs = []
    for perm in itertools.permutations(meas):
        m = Model(species=sp, reactions=[(['A'], ['B'], 'massaction', {'k': 'k1'})], parameters=[('k1', 0.0)],
                  initial_condition_dict={'A': 0, 'B': 0, 'C': 0})
        ins = InferenceSetup(Model=m, prior={'k1': ['uniform', -1.0, 1.0]}, params_to_estimate=['k1'],
                             exp_data=dfs if N > 1 else dfs[0], measurements=list(perm), time_column='time',
                             initial_conditions=ics if N > 1 else ics[0], norm_order=2, sim_type='stochastic', N_simulations=2)
        br.py_seed_random(77)
        got = float(ins.cost_function([0.0]))
        c.count('evaluations'); c.count('transitions')
        costs.append(got)
        exp = math.log(0.5)
        if abs(got - exp) > 1e-9:
            c.violation('C15/stochastic/alignment', 'stochastic cost %r for perfectly matching constant data (expected log-prior %r): '
                        'measurements %s, %d trajectories' % (got, exp, list(perm), N), dict(N=N, meas=list(perm)))
    c.count('states')
    c.nontrivial(('stochastic', N, tuple(meas)))


def cases(tier):
    out = []
    for name, md in MODELS.items():
        sp = md['species']
        meas_sets = []
        for k in range(1, len(sp) + 1):
            for combo in itertools.combinations(sp, k):
                meas_sets.append(list(combo))
        if len(sp) == 3:
            meas_sets.append(['C', 'A', 'B']); meas_sets.append(['B', 'A'])
        Ns = [1, 2, 3] if tier == 'quick' else [1, 2, 3, 4]
        for N in Ns:
            for meas in meas_sets:
                for norm in ((2,) if tier == 'quick' and N == 3 else (1, 2, 3)):
                    for icv in ('shared', 'per-trajectory'):
                        for pcv in ('none', 'equal-keys', 'differing-keys'):
                            if pcv != 'none' and len(md['params']) < 2:
                                continue
                            for gridv in ('shared', 'per-trajectory'):
                                if tier == 'quick' and (norm != 2 and (gridv == 'per-trajectory' or icv == 'shared')):
                                    continue
                                if N == 1 and gridv == 'per-trajectory':
                                    continue
                                for wrap in ((False, True) if N == 1 else (True,)):
                                    cs = make_case(name, N, meas, norm, icv, pcv, gridv, wrap)
                                    cs['hist_len'] = 3 if (tier == 'thorough' or (N <= 2 and len(meas) <= 2)) else 2
                                    out.append(cs)
    return out


def run(ctx):
    cs = cases(ctx.tier)
    pmap(check_case, cs, ctx, nshards=128)
    # pairs of experiments for one re-used object: same model / measurements / norm / number of trajectories, the second with other
    # time grids (same number of rows), initial and parameter conditions
    ru = []
    for name in MODELS:
        sp_ = MODELS[name]['species']
        for N in (1, 2, 3):
            for meas in ([sp_[0]], list(sp_)):
                for (icA, pcA, gA), (icB, pcB, gB) in ((('shared', 'none', 'shared'), ('per-trajectory', 'equal-keys', 'per-trajectory')),
                                                        (('per-trajectory', 'differing-keys', 'per-trajectory'), ('shared', 'none', 'shared')),
                                                        (('shared', 'equal-keys', 'shared'), ('shared', 'equal-keys', 'shared'))):
                    a_ = make_case(name, N, meas, 2, icA, pcA, gA if N > 1 else 'shared', True)
                    b_ = make_case(name, N, meas, 2, icB, pcB, gB if N > 1 else 'shared', True)
                    b_['grids'] = [(np.array(g_) * 1.5 + (0.0 if i_ % 2 == 0 else 0.0)).tolist() for i_, g_ in enumerate(b_['grids'])]   # another time column, same length
                    # every initial and parameter condition is spelled out completely: evaluating a cost leaves the Model holding the
                    # last trajectory's values (library behaviour, not part of this property), so nothing may be left to the
                    # 'model's own value' when an object is prepared a second time
                    for cs_ in (a_, b_):
                        cs_['icv'] = 'per-trajectory'
                        cs_['ics'] = [dict({s_: DEFAULTS[s_] for s_ in sp_}, **ic_) for ic_ in cs_['ics']]
                        others = {k_: v_ for k_, v_ in MODELS[name]['params'].items() if k_ != 'k1'}
                        cs_['pcs'] = [dict(others, **(pc_ or {})) if others else None for pc_ in cs_['pcs']]
                    for chain in ((False,) if ctx.quick and N == 3 else (False, True)):
                        ru.append((a_, b_, chain))
    pmap(reuse, ru, ctx, nshards=64)
    sm = [(name_, ms_, N_) for name_ in ('convert', 'chain') for ms_ in ([MODELS[name_]['species'][0]], list(MODELS[name_]['species'])) for N_ in (1, 2)]
    pmap(same_model, sm, ctx, nshards=len(sm))
    rp = [(st_, ms_, nm_) for st_ in ((0.0,), (1.0,), (0.0, 2.0), (2.0, 1.0), (1.0, 0.0, 0.5)) for ms_ in (['Y'], ['A', 'Y'], ['Y', 'A']) for nm_ in (1, 2)]
    pmap(ramp, rp, ctx, nshards=len(rp))
    st = [(N, meas) for N in (1, 2, 3) for meas in (['A'], ['A', 'B'], ['B', 'C', 'A'])]
    pmap(stochastic_alignment, st, ctx, nshards=len(st))
    ctx.bounds = dict(reuse_pairs=len(ru), cases=len(cs), history_length=cs[0]['hist_len'], thetas=THETAS)
    ctx.rule = ('E2+E3: linear models {A->0; A->B->0; A->B->C->0} with closed-form (matrix exponential) solutions x 1..4 trajectories (single '
                'data frame and one-element list) x every subset of measured species (and reordered lists) x norm orders 1..3 x shared / '
                'per-trajectory initial conditions x no / equal-key / differing-key parameter conditions x shared / per-trajectory time grids; '
                'data differ per species, trajectory and time so any misalignment changes the value. For each case: LL_data alignment, '
                'cost(theta) against the closed form at 5 points (one repeated, one outside the prior support -> -inf), every sequence of '
                'evaluations up to the history bound against a fresh InferenceSetup (1e-9), every permutation of measurement columns and of '
                'trajectories; one InferenceSetup object re-used for a second (and back to the first, and the second again) experiment through set_exp_data / set_initial_conditions / set_parameter_conditions + prepare_inference + setup_cost_function, with another time column of the same length; two problems set up one after the other on the same Model object with a non-estimated parameter moved by Model.set_params in between; a measured species defined by a time-reading assignment rule on trajectories whose grids start at 0 and later; plus the stochastic cost on a stream-independent model. states = cases; non-trivial = more than one '
                'measured species or trajectory.')
    ctx.assumptions = ['reference trajectories by scipy.linalg.expm; deterministic cost compared at 1e-5 relative (odeint tolerance)']


def replay(ctx, case):
    if 'same_model' in case:
        return same_model(ctx, (case['same_model'][0], case['same_model'][1], case['same_model'][2]))
    if 'ramp' in case:
        return ramp(ctx, (tuple(case['ramp'][0]), case['ramp'][1], case['ramp'][2]))
    if 'reuse' in case:
        return reuse(ctx, tuple(case['reuse']))
    if 'case' in case:
        check_case(ctx, case['case'])
    else:
        stochastic_alignment(ctx, (case['N'], case['meas']))
