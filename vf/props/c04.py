"""C04 - deterministic simulation solves the model's rate equations (engine E2)."""
import itertools
import numpy as np
from ..core import pmap
from ..nets import spec, ma, hill, gen
from ..ref import crn
from ..modelspec import to_model

A, B, C = 'A', 'B', 'C'
ID = lambda s: ('id', s)
NUM = lambda v: ('num', v)
GRIDS = {
    'u025': [0.25 * i for i in range(9)],
    'u01': [0.1 * i for i in range(17)],
    'geo': [0.0, 0.05, 0.15, 0.35, 0.75, 1.55, 1.5500001, 3.15],
    'two': [0.0, 1.0],
    'u3': [0.0, 0.5, 1.0],
}
TOL = 1e-5


def affine_models(tier):
    rates = [0.3, 1.0, 2.5]
    inits = [0.0, 1.0, 4.5]
    menu = lambda k: [
        ma([], [A], k), ma([A], [], k), ma([A], [B], k), ma([B], [A], k), ma([A], [A, B], k), ma([B], [C], k), ma([A], [B, B], k),
        dict(ma([A], [], k), delay=dict(type='fixed', delay=0.4, reactants=[], products=[B])),
        dict(ma([B], [C], k), delay=dict(type='gaussian', mean=0.3, std=0.1, reactants=[A], products=[A, A])),
    ]
    out = []
    n = len(menu(1.0))
    for size in (1, 2, 3):
        for combo in itertools.combinations(range(n), size):
            for ri, ks in enumerate(itertools.product(rates, repeat=size)):
                if tier == 'quick' and (sum(combo) + ri) % (1 if size == 1 else 3 if size == 2 else 12) != 0:
                    continue
                if tier == 'thorough' and size == 3 and (sum(combo) + ri) % 5 != 0:
                    continue
                rx = [menu(k)[i] for i, k in zip(combo, ks)]
                for ii, x0 in enumerate(itertools.product(inits, repeat=3)):
                    if (ii + ri + sum(combo)) % (5 if tier == "quick" else 2) != 0:
                        continue
                    out.append(spec('affine', [A, B, C], dict(zip([A, B, C], x0)), rx))
    return out


def nonlinear_models(tier):
    out = []
    ks = [0.5, 2.0] if tier == 'quick' else [0.3, 1.0, 3.0]
    sink = lambda: [ma([A], [], 0.4), ma([B], [], 0.6), ma([C], [], 0.5)]
    for k in ks:
        for x0 in ([dict(A=4.5, B=1.0, C=0.0)] if tier == 'quick' else [dict(A=4.5, B=1.0, C=0.0), dict(A=1.0, B=0.0, C=2.0), dict(A=0.0, B=3.0, C=1.0)]):
            cores = {
                'bimolecular': [ma([A, B], [C], k), ma([C], [A, B], 0.7)],
                'dimer': [ma([A, A], [B], k), ma([B], [A, A], 0.5)],
                'third_order': [ma([A, A, B], [C], 0.2 * k), ma([], [A], 1.0)],
                'third_order_rep': [ma([A, B, B], [C, C], 0.2 * k), ma([], [B], 0.8)],
                'third_order_interleaved': [ma([A, B, A], [C], 0.2 * k), ma([B, A, B], [C, C], 0.1 * k), ma([], [A], 1.0), ma([], [B], 0.8)],
                'fourth_order': [ma([A, A, B, C], [B], 0.05 * k), ma([], [A], 1.0), ma([], [C], 0.5)],
                'hillpos': [hill('hillpositive', [], [B], k, 2.0, 2.0, A), ma([], [A], 1.0)],
                'hillneg': [hill('hillnegative', [], [A], k, 1.5, 2.5, B), ma([A], [B], 0.8)],
                'prophillpos': [hill('proportionalhillpositive', [], [C], k, 2.0, 1.0, A, B), ma([], [B], 0.5)],
                'prophillneg': [hill('proportionalhillnegative', [], [C], k, 1.0, 2.0, B, A), ma([], [A], 0.5)],
                'general_rational': [gen([A], [B], ('/', ('*', NUM(k), ID(A)), ('+', NUM(1), ID(B)))), ma([], [A], 1.0)],
                'time_decay': [gen([], [A], ('*', NUM(k), ('exp', ('neg', ('t',))))), ma([A], [B], 0.5)],
                'time_linear': [gen([], [B], ('*', NUM(k), ('+', NUM(1), ('t',)))), ma([B], [C], 0.7)],
                'delayed_nonlinear': [dict(ma([A, B], [], k), delay=dict(type='fixed', delay=0.5, reactants=[], products=[C, C])), ma([], [A], 1.0)],
                # one species changed by the immediate AND by the delayed part of the same reaction (the rate equations use the sum)
                'delayed_overlap_cat': [dict(ma([A], [], k), delay=dict(type='fixed', delay=0.5, reactants=[], products=[A, B])), ma([B], [C], 0.6)],
                'delayed_overlap_dimer': [dict(ma([A, A], [B], k), delay=dict(type='fixed', delay=0.3, reactants=[], products=[A, C, C])), ma([], [A], 1.0)],
                'delayed_overlap_reactant': [dict(ma([B], [], k), delay=dict(type='fixed', delay=0.3, reactants=[B], products=[C])), ma([A], [B, B], 0.9)],
            }
            for name, core in cores.items():
                out.append(spec(name, [A, B, C], x0, core + sink()))
            # single-letter names that sympy knows as constants / functions (E, S, O, Q, N, I, C), the parameters declared after
            # the reactions (the constructor's order): Michaelis-Menten with enzyme amount E
            if x0 is not None and x0.get(A, 0) == 4.5:
                out.append(spec('clash_names', ['S', 'Q', 'N'], {'S': 4.5, 'Q': 1.0, 'N': 0.0},
                                [gen(['S'], ['Q'], ('/', ('*', ('*', ID('I'), ID('E')), ID('S')), ('+', ID('O'), ID('S')))), ma(['Q'], ['N'], 'C'), ma(['N'], [], 0.5),
                                 ma(['S'], [], 0.4)], params={'I': k, 'E': 2.0, 'O': 1.5, 'C': 0.7}))
    return out


def rhs(sp, S, Sd):
    species = sp['species']

    def f(t, x):
        xd = dict(zip(species, x))
        r = [crn.rate(sp, rx, xd, 'det', 1.0, t) for rx in sp['reactions']]
        return [sum((S[i][j] + Sd[i][j]) * r[j] for j in range(len(r))) for i in range(len(species))]
    return f


def reference(sp, times):
    from scipy.linalg import expm
    from scipy.integrate import solve_ivp
    S, Sd = crn.stoich(sp)
    x0 = np.array([float(sp['x0'][s]) for s in sp['species']])
    if sp['name'] == 'affine':
        # dx/dt = M x + b  ->  augmented matrix exponential
        n = len(x0)
        M = np.zeros((n + 1, n + 1))
        f = rhs(sp, S, Sd)
        b = np.array(f(0.0, np.zeros(n)))
        for i in range(n):
            e = np.zeros(n); e[i] = 1.0
            M[:n, i] = np.array(f(0.0, e)) - b
        M[:n, n] = b
        aug = np.append(x0, 1.0)
        return np.array([(expm(M * t) @ aug)[:n] for t in times])
    sol = solve_ivp(rhs(sp, S, Sd), (times[0], times[-1]), x0, method='DOP853', t_eval=times, rtol=1e-12, atol=1e-13)
    return sol.y.T


def check(c, item):
    from bioscrape.simulator import py_simulate_model, DeterministicSimulator, ModelCSimInterface
    sp, gname = item[0], item[1]
    via_edits = len(item) > 2 and item[2] == 'edited'
    times = np.array(GRIDS[gname])
    c.count('states')
    case = dict(spec=sp, grid=gname, edited=via_edits)
    try:
        if via_edits:
            from .. import e1
            m = e1.Impl(sp, False, edited=True).model      # the same definition reached through edits, rejected calls in between
            m.set_species({s_: float(v_) for s_, v_ in sp['x0'].items()})
        else:
            m = to_model(sp)
    except RuntimeError:
        raise
    except Exception as e:
        c.violation('C04/%s%s/build-exception' % (sp['name'], '-edited' if via_edits else ''), 'a well-formed model was rejected: %r' % e, case)
        return
    order = m.get_species_list()
    perm = [order.index(s) for s in sp['species']]
    ref = reference(sp, times)
    outs = {}
    res = py_simulate_model(times, Model=m, stochastic=False, return_dataframe=False)
    outs['py_simulate_model'] = np.asarray(res.py_get_result())[:, perm]
    iface = ModelCSimInterface(m)
    iface.py_prep_deterministic_simulation()
    res2 = DeterministicSimulator().py_simulate(iface, times)
    outs['DeterministicSimulator'] = np.asarray(res2.py_get_result())[:, perm]
    # the same interface again: a second run, and a run after preparing it again, solve the same equations
    res3 = DeterministicSimulator().py_simulate(iface, times)
    outs['DeterministicSimulator/second-run'] = np.asarray(res3.py_get_result())[:, perm]
    iface.py_prep_deterministic_simulation()
    res4 = DeterministicSimulator().py_simulate(iface, times)
    outs['DeterministicSimulator/re-prepared'] = np.asarray(res4.py_get_result())[:, perm]
    res5 = py_simulate_model(times, Interface=iface, stochastic=False, return_dataframe=False)
    outs['py_simulate_model/kept-interface'] = np.asarray(res5.py_get_result())[:, perm]
    if not via_edits:
        # a second, independent model of the same definition with the species declared in another order (same names, same rate strings)
        sp_r = dict(sp, species=list(reversed(sp['species'])))
        try:
            m_r = to_model(sp_r)
            order_r = m_r.get_species_list()
            res6 = py_simulate_model(times, Model=m_r, stochastic=False, return_dataframe=False)
            outs['py_simulate_model/species-declared-in-reverse'] = np.asarray(res6.py_get_result())[:, [order_r.index(s_) for s_ in sp['species']]]
        except Exception as e:
            c.violation('C04/%s/build-exception' % sp['name'], 'the same model with its species declared in reverse order was rejected: %r' % e, case)
    for route, out in outs.items():
        c.count('evaluations'); c.count('traces'); c.count('transitions', len(times))
        key = 'C04/%s%s/%s/' % (sp['name'], '-edited' if via_edits else '', route)
        if out.shape != ref.shape:
            c.violation(key + 'shape', 'result shape %s for %d time points' % (out.shape, len(times)), case)
            continue
        if not np.array_equal(out[0], ref[0]):
            c.violation(key + 'first-row', 'first row %s is not the initial condition %s' % (out[0].tolist(), ref[0].tolist()), case)
            continue
        err = np.abs(out - ref) / (1.0 + np.abs(ref))
        if not np.all(np.isfinite(out)) or err.max() > TOL:
            k = np.unravel_index(np.nanargmax(np.where(np.isfinite(err), err, np.inf)), err.shape)
            c.violation(key + 'trajectory', 'at t=%s species %s: simulated %r, exact solution %r' % (
                times[k[0]], sp['species'][k[1]], out[k], ref[k]), case)
    c.nontrivial(repr((sp['reactions'], sp['x0'], gname)))
    if len(c.samples) < 2 and sp['name'] != 'affine':
        c.sample(dict(model=sp['name'], grid=gname, x_end_ref=ref[-1].tolist(), x_end=outs['py_simulate_model'][-1].tolist()))


def sweep(c, item):
    """one Model and one kept interface, re-parameterised with Model.set_params and restarted with Model.set_species between runs: every run solves the equations
    of the current parameter values (closed form of X' = a(1 + e^{-t}/2) - bX, Y' = bX - cY by DOP853 on the reference)"""
    from bioscrape.simulator import py_simulate_model, DeterministicSimulator, ModelCSimInterface
    from bioscrape.types import Model
    gname, via = item
    times = np.array(GRIDS[gname])
    c.count('states')
    Xs, Ys = 'X', 'Y'
    sp0 = lambda a, b, cc: spec('sweep', [Xs, Ys], {Xs: 1.0, Ys: 0.5},
                                [gen([], [Xs], ('*', ID('a'), ('+', NUM(1), ('*', NUM(0.5), ('exp', ('neg', ('t',))))))),
                                 ma([Xs], [Ys], 'b'), ma([Ys], [], 'cc')], params=dict(a=a, b=b, cc=cc))
    sets = [(1.0, 0.5, 0.3), (2.5, 1.5, 0.3), (0.4, 0.5, 2.0), (1.0, 0.5, 0.3)]
    m = to_model(sp0(*sets[0]))
    order = m.get_species_list()
    perm = [order.index(s_) for s_ in (Xs, Ys)]
    iface = ModelCSimInterface(m)
    iface.py_prep_deterministic_simulation()
    starts = [{Xs: 1.0, Ys: 0.5}, {Xs: 4.0, Ys: 0.0}, {Xs: 0.0, Ys: 2.5}, {Xs: 1.0, Ys: 0.5}]
    for k, ps in enumerate(sets):
        m.set_params(dict(a=ps[0], b=ps[1], cc=ps[2]))
        m.set_species(dict(starts[k]))            # the kept interface follows the Model's initial condition as well
        spk = sp0(*ps); spk['x0'] = dict(starts[k])
        ref = reference(spk, times)
        if via == 'interface':
            out = np.asarray(DeterministicSimulator().py_simulate(iface, times).py_get_result())[:, perm]
        elif via == 'entry-interface':
            out = np.asarray(py_simulate_model(times, Interface=iface, stochastic=False, return_dataframe=False).py_get_result())[:, perm]
        else:
            out = np.asarray(py_simulate_model(times, Model=m, stochastic=False, return_dataframe=False).py_get_result())[:, perm]
        c.count('evaluations'); c.count('traces'); c.count('transitions', len(times))
        err = np.abs(out - ref) / (1.0 + np.abs(ref))
        if out.shape != ref.shape or not np.all(np.isfinite(out)) or err.max() > TOL:
            c.violation('C04/sweep/%s/trajectory' % via, 'parameter set %d %s on the re-used %s: simulated end state %s, exact %s' % (
                k, ps, via, out[-1].tolist() if out.ndim == 2 else out.shape, ref[-1].tolist()), dict(spec=dict(name='sweep'), grid=gname, via=via))
            return
    c.nontrivial(('sweep', gname, via))


def effort(c, item):
    """long gaps between requested time points under a user-set maximum step size hmax: the number of internal steps is
    about gap / hmax; every gap whose need stays below the documented ceiling (mxstep, default 500000) must be solved"""
    from bioscrape.simulator import DeterministicSimulator, ModelCSimInterface
    need, mxstep, route = item
    hmax = 0.01
    G = need * hmax
    times = np.array([0.0, 0.25, G + 0.25, G + 0.5])
    sp = spec('affine', [A, B, C], {A: 3.0, B: 1.0, C: 0.0}, [ma([], [A], 1.0), ma([A], [B], 0.07), ma([B], [C], 0.13), ma([C], [], 0.04), ma([B], [A], 0.02)])
    m = to_model(sp)
    c.count('states'); c.count('evaluations'); c.count('traces'); c.count('transitions', len(times))
    ref = reference(sp, times)
    case = dict(spec=dict(name='effort'), need=need, mxstep=mxstep, route=route)
    iface = ModelCSimInterface(m)
    iface.py_prep_deterministic_simulation()
    sim = DeterministicSimulator()
    if mxstep:
        sim.py_set_mxstep(mxstep)
    if route == 'setter':
        sim.py_set_hmax(hmax)
        out = np.asarray(sim.py_simulate(iface, times).py_get_result())
    else:
        out = np.asarray(sim.py_simulate(iface, times, hmax=hmax).py_get_result())
    order = m.get_species_list()
    if out.ndim == 2 and out.shape[1] == len(order):
        out = out[:, [order.index(s_) for s_ in sp['species']]]
    err = np.abs(out - ref) / (1.0 + np.abs(ref)) if out.shape == ref.shape else None
    if err is None or not np.all(np.isfinite(out)) or err.max() > TOL:
        c.violation('C04/effort/%s/trajectory' % route, 'a gap that needs about %d internal steps (hmax %s, step ceiling %s): simulated %s, exact %s' % (
            need, hmax, mxstep or 'default 500000', out[-1].tolist() if out.ndim == 2 else out.shape, ref[-1].tolist()), case)
        return
    c.nontrivial(('effort', need, mxstep, route))


def tolerances(c, item):
    """user-set tolerances (atol, rtol) that differ, on states far from magnitude 1: the error stays within 200 (atol + rtol |x|)"""
    from bioscrape.simulator import DeterministicSimulator, ModelCSimInterface
    atol, rtol, scale, how = item
    sp = spec('affine', [A, B, C], {A: 3.0 * scale, B: 1.0 * scale, C: 0.0}, [ma([A], [B], 0.7), ma([B], [C], 1.3), ma([C], [], 0.4), ma([B], [A], 0.2)])
    times = np.array(GRIDS['u025'])
    m = to_model(sp)
    iface = ModelCSimInterface(m)
    iface.py_prep_deterministic_simulation()
    sim = DeterministicSimulator()
    c.count('states'); c.count('evaluations'); c.count('traces'); c.count('transitions', len(times))
    if how == 'setter':
        sim.py_set_tolerance(atol, rtol)
        out = np.asarray(sim.py_simulate(iface, times).py_get_result())
    elif how == 'atol-keyword-only':
        # one tolerance through the setter, the other as a keyword of the call: each keeps its own value
        sim.py_set_tolerance(1e-9, rtol)
        out = np.asarray(sim.py_simulate(iface, times, atol=atol).py_get_result())
    elif how == 'rtol-keyword-only':
        sim.py_set_tolerance(atol, 1e-3)
        out = np.asarray(sim.py_simulate(iface, times, rtol=rtol).py_get_result())
    else:
        out = np.asarray(sim.py_simulate(iface, times, atol=atol, rtol=rtol).py_get_result())
    order = m.get_species_list()
    out = out[:, [order.index(s_) for s_ in sp['species']]]
    ref = reference(sp, times)
    band = 200.0 * (atol + rtol * np.abs(ref))
    bad = np.abs(out - ref) > band
    if out.shape != ref.shape or not np.all(np.isfinite(out)) or bad.any():
        kk = np.unravel_index(np.argmax(np.abs(out - ref) / band), ref.shape)
        c.violation('C04/tolerance/%s/trajectory' % how, 'atol=%g rtol=%g states ~%g: error %.3g at t=%s, allowed %.3g' % (
            atol, rtol, scale, abs(out[kk] - ref[kk]), times[kk[0]], band[kk]), dict(spec=dict(name='tolerance'), atol=atol, rtol=rtol, scale=scale, how=how))
        return
    c.nontrivial(('tolerance', atol, rtol, scale, how))


def run(ctx):
    eff = [(n_, 0, r_) for n_ in ((300, 2000, 20000, 80000) if ctx.quick else (300, 2000, 4000, 20000, 45000, 80000, 300000)) for r_ in ('setter', 'keyword')]
    eff += [(2000, 5000, 'setter'), (20000, 50000, 'keyword'), (2000, 2500, 'setter')] + ([] if ctx.quick else [(4000, 5000, 'keyword'), (30000, 40000, 'setter')])
    pmap(effort, eff, ctx, nshards=len(eff))
    tl = [(a_, r_, sc, how) for (a_, r_, sc) in ((1e-13, 1e-6, 1e-6), (1e-4, 1e-12, 1e3), (1e-10, 1e-10, 1.0), (1e-12, 1e-5, 1e-4)) for how in ('setter', 'keywords')]
    # a loose absolute next to a tight relative tolerance on large states (and the reverse on small ones), each also with only one of the
    # two given in the call
    tl += [(a_, r_, sc, how) for (a_, r_, sc) in ((1e-2, 1e-12, 1e4), (1e-3, 1e-12, 3e3), (1e-14, 1e-3, 1e-5))
           for how in ('setter', 'keywords', 'atol-keyword-only', 'rtol-keyword-only')]
    pmap(tolerances, tl, ctx, nshards=len(tl))
    pmap(sweep, [(g, via) for g in ('u025', 'geo', 'two') for via in ('interface', 'entry-interface', 'model')], ctx, nshards=9)
    models = affine_models(ctx.tier) + nonlinear_models(ctx.tier)
    grids = ['u025', 'geo', 'two'] if ctx.quick else list(GRIDS)
    items = [(sp, g) for i, sp in enumerate(models) for gi, g in enumerate(grids)
             if sp['name'] != 'affine' or ctx.tier == 'thorough' or (i + gi) % 3 == 0 or gi == 0]
    items += [(sp, 'geo', 'edited') for i, sp in enumerate(models) if sp['name'] != 'affine' or i % 7 == 0]
    pmap(check, items, ctx, nshards=256)
    ctx.exhaustive = True
    ctx.bounds = dict(models=len(models), grids=grids, runs=len(items), tolerance='1e-5*(1+|x|)', effort_cases=eff, tolerance_cases=len(tl))
    ctx.rule = ('E2: (a) every affine network assembled from <= 3 reactions of a 9-reaction menu (sources, sinks, conversions, catalytic and '
                'double production, two delayed reactions) x rate alphabet {0.3,1,2.5} x initial alphabet {0,1,4.5}^3 (strided as stated in '
                'the bounds), reference = augmented matrix exponential; (b) 13 non-linear families (bimolecular, dimer, third and fourth order '
                'with repeats, four Hill families, rational, explicitly time-dependent, delayed non-linear, a species changed by both the immediate and the delayed part of one reaction) x rates x initial states, '
                'reference = DOP853 at rtol 1e-12 on the reference right-hand side; (c) uniform, geometric (with a repeated tiny gap) and '
                'two-point grids from 0. Both entry points, a second independent model with the species declared in reverse order, plus a second run / a re-prepared run / an entry-point run on the same interface object, and a parameter sweep (Model.set_params) on one kept Model and interface; (d) a linear network under a user-set maximum step size (setter and keyword) across gaps that need 300..80000 (thorough 300000) internal steps, with the default step ceiling and with user-set ceilings above the need; (e) user-set tolerances (setter, keywords, and one through the setter with the other as a keyword) that differ from each other by up to ten orders of magnitude on states of magnitude 1e-6..1e4, error within 200 (atol + rtol |x|). Oracle: first row is the initial condition exactly; every row within '
                '1e-5*(1+|x|). states = (model, grid) runs.')
    ctx.assumptions = ['finite family of well-posed non-stiff models; continuous parameter domains are represented by the alphabets only',
                       'odeint runs at atol=rtol=1.49e-8, the band is >100x that']


def replay(ctx, case):
    if case['spec'].get('name') == 'effort':
        return effort(ctx, (case['need'], case['mxstep'], case['route']))
    if case['spec'].get('name') == 'tolerance':
        return tolerances(ctx, (case['atol'], case['rtol'], case['scale'], case['how']))
    if case['spec'].get('name') == 'sweep':
        return sweep(ctx, (case['grid'], case['via']))
    check(ctx, (case['spec'], case['grid']) + (('edited',) if case.get('edited') else ()))
