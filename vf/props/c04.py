"""C04 - deterministic simulation solves the model's rate equations (engine E2)."""
import itertools
import numpy as np
from ..core import pmap
from ..nets import spec, ma, hill, gen
from ..ref import crn
from ..modelspec import to_model

A, B, C = 'A', 'B', 'C'
ID = lambda s: ('id', s)
NUM = lambda v: ('num', v)
GRIDS = {
    'u025': [0.25 * i for i in range(9)],
    'u01': [0.1 * i for i in range(17)],
    'geo': [0.0, 0.05, 0.15, 0.35, 0.75, 1.55, 1.5500001, 3.15],
    'two': [0.0, 1.0],
    'u3': [0.0, 0.5, 1.0],
}
TOL = 1e-5


def affine_models(tier):
    rates = [0.3, 1.0, 2.5]
    inits = [0.0, 1.0, 4.5]
    menu = lambda k: [
        ma([], [A], k), ma([A], [], k), ma([A], [B], k), ma([B], [A], k), ma([A], [A, B], k), ma([B], [C], k), ma([A], [B, B], k),
        dict(ma([A], [], k), delay=dict(type='fixed', delay=0.4, reactants=[], products=[B])),
        dict(ma([B], [C], k), delay=dict(type='gaussian', mean=0.3, std=0.1, reactants=[A], products=[A, A])),
    ]
    out = []
    n = len(menu(1.0))
    for size in (1, 2, 3):
        for combo in itertools.combinations(range(n), size):
            for ri, ks in enumerate(itertools.product(rates, repeat=size)):
                if tier == 'quick' and (sum(combo) + ri) % (1 if size == 1 else 3 if size == 2 else 12) != 0:
                    continue
                if tier == 'thorough' and size == 3 and (sum(combo) + ri) % 5 != 0:
                    continue
                rx = [menu(k)[i] for i, k in zip(combo, ks)]
                for ii, x0 in enumerate(itertools.product(inits, repeat=3)):
                    if (ii + ri + sum(combo)) % (5 if tier == "quick" else 2) != 0:
                        continue
                    out.append(spec('affine', [A, B, C], dict(zip([A, B, C], x0)), rx))
    return out


def nonlinear_models(tier):
    out = []
    ks = [0.5, 2.0] if tier == 'quick' else [0.3, 1.0, 3.0]
    sink = lambda: [ma([A], [], 0.4), ma([B], [], 0.6), ma([C], [], 0.5)]
    for k in ks:
        for x0 in ([dict(A=4.5, B=1.0, C=0.0)] if tier == 'quick' else [dict(A=4.5, B=1.0, C=0.0), dict(A=1.0, B=0.0, C=2.0), dict(A=0.0, B=3.0, C=1.0)]):
            cores = {
                'bimolecular': [ma([A, B], [C], k), ma([C], [A, B], 0.7)],
                'dimer': [ma([A, A], [B], k), ma([B], [A, A], 0.5)],
                'third_order': [ma([A, A, B], [C], 0.2 * k), ma([], [A], 1.0)],
                'third_order_rep': [ma([A, B, B], [C, C], 0.2 * k), ma([], [B], 0.8)],
                'fourth_order': [ma([A, A, B, C], [B], 0.05 * k), ma([], [A], 1.0), ma([], [C], 0.5)],
                'hillpos': [hill('hillpositive', [], [B], k, 2.0, 2.0, A), ma([], [A], 1.0)],
                'hillneg': [hill('hillnegative', [], [A], k, 1.5, 2.5, B), ma([A], [B], 0.8)],
                'prophillpos': [hill('proportionalhillpositive', [], [C], k, 2.0, 1.0, A, B), ma([], [B], 0.5)],
                'prophillneg': [hill('proportionalhillnegative', [], [C], k, 1.0, 2.0, B, A), ma([], [A], 0.5)],
                'general_rational': [gen([A], [B], ('/', ('*', NUM(k), ID(A)), ('+', NUM(1), ID(B)))), ma([], [A], 1.0)],
                'time_decay': [gen([], [A], ('*', NUM(k), ('exp', ('neg', ('t',))))), ma([A], [B], 0.5)],
                'time_linear': [gen([], [B], ('*', NUM(k), ('+', NUM(1), ('t',)))), ma([B], [C], 0.7)],
                'delayed_nonlinear': [dict(ma([A, B], [], k), delay=dict(type='fixed', delay=0.5, reactants=[], products=[C, C])), ma([], [A], 1.0)],
            }
            for name, core in cores.items():
                out.append(spec(name, [A, B, C], x0, core + sink()))
    return out


def rhs(sp, S, Sd):
    species = sp['species']

    def f(t, x):
        xd = dict(zip(species, x))
        r = [crn.rate(sp, rx, xd, 'det', 1.0, t) for rx in sp['reactions']]
        return [sum((S[i][j] + Sd[i][j]) * r[j] for j in range(len(r))) for i in range(len(species))]
    return f


def reference(sp, times):
    from scipy.linalg import expm
    from scipy.integrate import solve_ivp
    S, Sd = crn.stoich(sp)
    x0 = np.array([float(sp['x0'][s]) for s in sp['species']])
    if sp['name'] == 'affine':
        # dx/dt = M x + b  ->  augmented matrix exponential
        n = len(x0)
        M = np.zeros((n + 1, n + 1))
        f = rhs(sp, S, Sd)
        b = np.array(f(0.0, np.zeros(n)))
        for i in range(n):
            e = np.zeros(n); e[i] = 1.0
            M[:n, i] = np.array(f(0.0, e)) - b
        M[:n, n] = b
        aug = np.append(x0, 1.0)
        return np.array([(expm(M * t) @ aug)[:n] for t in times])
    sol = solve_ivp(rhs(sp, S, Sd), (times[0], times[-1]), x0, method='DOP853', t_eval=times, rtol=1e-12, atol=1e-13)
    return sol.y.T


def check(c, item):
    from bioscrape.simulator import py_simulate_model, DeterministicSimulator, ModelCSimInterface
    sp, gname = item
    times = np.array(GRIDS[gname])
    c.count('states')
    case = dict(spec=sp, grid=gname)
    m = to_model(sp)
    order = m.get_species_list()
    perm = [order.index(s) for s in sp['species']]
    ref = reference(sp, times)
    outs = {}
    res = py_simulate_model(times, Model=m, stochastic=False, return_dataframe=False)
    outs['py_simulate_model'] = np.asarray(res.py_get_result())[:, perm]
    iface = ModelCSimInterface(m)
    iface.py_prep_deterministic_simulation()
    res2 = DeterministicSimulator().py_simulate(iface, times)
    outs['DeterministicSimulator'] = np.asarray(res2.py_get_result())[:, perm]
    # the same interface again: a second run, and a run after preparing it again, solve the same equations
    res3 = DeterministicSimulator().py_simulate(iface, times)
    outs['DeterministicSimulator/second-run'] = np.asarray(res3.py_get_result())[:, perm]
    iface.py_prep_deterministic_simulation()
    res4 = DeterministicSimulator().py_simulate(iface, times)
    outs['DeterministicSimulator/re-prepared'] = np.asarray(res4.py_get_result())[:, perm]
    res5 = py_simulate_model(times, Interface=iface, stochastic=False, return_dataframe=False)
    outs['py_simulate_model/kept-interface'] = np.asarray(res5.py_get_result())[:, perm]
    for route, out in outs.items():
        c.count('evaluations'); c.count('traces'); c.count('transitions', len(times))
        key = 'C04/%s/%s/' % (sp['name'], route)
        if out.shape != ref.shape:
            c.violation(key + 'shape', 'result shape %s for %d time points' % (out.shape, len(times)), case)
            continue
        if not np.array_equal(out[0], ref[0]):
            c.violation(key + 'first-row', 'first row %s is not the initial condition %s' % (out[0].tolist(), ref[0].tolist()), case)
            continue
        err = np.abs(out - ref) / (1.0 + np.abs(ref))
        if not np.all(np.isfinite(out)) or err.max() > TOL:
            k = np.unravel_index(np.nanargmax(np.where(np.isfinite(err), err, np.inf)), err.shape)
            c.violation(key + 'trajectory', 'at t=%s species %s: simulated %r, exact solution %r' % (
                times[k[0]], sp['species'][k[1]], out[k], ref[k]), case)
    c.nontrivial(repr((sp['reactions'], sp['x0'], gname)))
    if len(c.samples) < 2 and sp['name'] != 'affine':
        c.sample(dict(model=sp['name'], grid=gname, x_end_ref=ref[-1].tolist(), x_end=outs['py_simulate_model'][-1].tolist()))


def sweep(c, item):
    """one Model and one kept interface, re-parameterised with Model.set_params between runs: every run solves the equations
    of the current parameter values (closed form of X' = a(1 + e^{-t}/2) - bX, Y' = bX - cY by DOP853 on the reference)"""
    from bioscrape.simulator import py_simulate_model, DeterministicSimulator, ModelCSimInterface
    from bioscrape.types import Model
    gname, via = item
    times = np.array(GRIDS[gname])
    c.count('states')
    Xs, Ys = 'X', 'Y'
    sp0 = lambda a, b, cc: spec('sweep', [Xs, Ys], {Xs: 1.0, Ys: 0.5},
                                [gen([], [Xs], ('*', ID('a'), ('+', NUM(1), ('*', NUM(0.5), ('exp', ('neg', ('t',))))))),
                                 ma([Xs], [Ys], 'b'), ma([Ys], [], 'cc')], params=dict(a=a, b=b, cc=cc))
    sets = [(1.0, 0.5, 0.3), (2.5, 1.5, 0.3), (0.4, 0.5, 2.0), (1.0, 0.5, 0.3)]
    m = to_model(sp0(*sets[0]))
    order = m.get_species_list()
    perm = [order.index(s_) for s_ in (Xs, Ys)]
    iface = ModelCSimInterface(m)
    iface.py_prep_deterministic_simulation()
    for k, ps in enumerate(sets):
        m.set_params(dict(a=ps[0], b=ps[1], cc=ps[2]))
        ref = reference(sp0(*ps), times)
        if via == 'interface':
            out = np.asarray(DeterministicSimulator().py_simulate(iface, times).py_get_result())[:, perm]
        elif via == 'entry-interface':
            out = np.asarray(py_simulate_model(times, Interface=iface, stochastic=False, return_dataframe=False).py_get_result())[:, perm]
        else:
            out = np.asarray(py_simulate_model(times, Model=m, stochastic=False, return_dataframe=False).py_get_result())[:, perm]
        c.count('evaluations'); c.count('traces'); c.count('transitions', len(times))
        err = np.abs(out - ref) / (1.0 + np.abs(ref))
        if out.shape != ref.shape or not np.all(np.isfinite(out)) or err.max() > TOL:
            c.violation('C04/sweep/%s/trajectory' % via, 'parameter set %d %s on the re-used %s: simulated end state %s, exact %s' % (
                k, ps, via, out[-1].tolist() if out.ndim == 2 else out.shape, ref[-1].tolist()), dict(spec=dict(name='sweep'), grid=gname, via=via))
            return
    c.nontrivial(('sweep', gname, via))


def run(ctx):
    pmap(sweep, [(g, via) for g in ('u025', 'geo', 'two') for via in ('interface', 'entry-interface', 'model')], ctx, nshards=9)
    models = affine_models(ctx.tier) + nonlinear_models(ctx.tier)
    grids = ['u025', 'geo', 'two'] if ctx.quick else list(GRIDS)
    items = [(sp, g) for i, sp in enumerate(models) for gi, g in enumerate(grids)
             if sp['name'] != 'affine' or ctx.tier == 'thorough' or (i + gi) % 3 == 0 or gi == 0]
    pmap(check, items, ctx, nshards=256)
    ctx.exhaustive = True
    ctx.bounds = dict(models=len(models), grids=grids, runs=len(items), tolerance='1e-5*(1+|x|)')
    ctx.rule = ('E2: (a) every affine network assembled from <= 3 reactions of a 9-reaction menu (sources, sinks, conversions, catalytic and '
                'double production, two delayed reactions) x rate alphabet {0.3,1,2.5} x initial alphabet {0,1,4.5}^3 (strided as stated in '
                'the bounds), reference = augmented matrix exponential; (b) 13 non-linear families (bimolecular, dimer, third and fourth order '
                'with repeats, four Hill families, rational, explicitly time-dependent, delayed non-linear) x rates x initial states, '
                'reference = DOP853 at rtol 1e-12 on the reference right-hand side; (c) uniform, geometric (with a repeated tiny gap) and '
                'two-point grids from 0. Both entry points, plus a second run / a re-prepared run / an entry-point run on the same interface object, and a parameter sweep (Model.set_params) on one kept Model and interface. Oracle: first row is the initial condition exactly; every row within '
                '1e-5*(1+|x|). states = (model, grid) runs.')
    ctx.assumptions = ['finite family of well-posed non-stiff models; continuous parameter domains are represented by the alphabets only',
                       'odeint runs at atol=rtol=1.49e-8, the band is >100x that']


def replay(ctx, case):
    if case['spec'].get('name') == 'sweep':
        return sweep(ctx, (case['grid'], case['via']))
    check(ctx, (case['spec'], case['grid']))
