"""C08 - results depend only on the model's current definition and the seed (engine E3)."""
import itertools, os, warnings
import numpy as np
SEED = int(os.environ.get('VERIF_SEED', '0') or 0)   # rotates the real seeds that accompany the scripted stream; no verdict depends on it
from ..core import pmap
from ..util import Stream

TIMES = np.linspace(0, 1.0, 5)
SCRIPT = [0.31, 0.77, 0.52, 0.13, 0.9, 0.44, 0.6, 0.25, 0.8, 0.35, 0.66, 0.2] * 3

REACTIONS = {
    'r_ma': (['A'], ['B'], 'massaction', {'k': 0.8}),
    'r_hill': (['B'], ['A'], 'proportionalhillpositive', {'k': 'kf', 'K': 'KK', 'n': 'nn', 's1': 'A', 'd': 'B'}),
    'r_gen': (['A'], ['C'], 'general', {'rate': 'kf*A/(1+B)'}),
    'r_delay': (['B'], [], 'massaction', {'k': 0.6}, 'fixed', [], ['C'], {'delay': 0.3}),
    'r_gdelay': (['A'], [], 'massaction', {'k': 0.7}, 'gaussian', [], ['B'], {'mean': 0.3, 'std': 0.2}),
}
OPS = ['species', 'r_ma', 'r_hill', 'r_gen', 'r_delay', 'r_gdelay', 'r_bad', 'r_late_param', 'rule_bad', 'param', 'rule', 'rule_dt', 'setp', 'setps', 'sets', 'init', 'iface', 'iface_safe',
       'sim_det', 'sim_ssa', 'sim_safe', 'sim_vol', 'sim_delay', 'sim_delayvol', 'sim_iface', 'sim_iface_det', 'other_det', 'seed']


class Shadow:
    """the definition the history has produced so far"""

    def __init__(self):
        self.species = ['A', 'B']
        self.reactions = [(['A'], ['B'], 'massaction', {'k': 'kf'})]
        self.params = [('kf', 1.5), ('KK', 2.0), ('nn', 2.0)]
        self.rules = []
        self.values = {'A': 5.0, 'B': 1.0}

    def fresh(self):
        from bioscrape.types import Model
        return Model(species=list(self.species), reactions=[tuple(r) for r in self.reactions], parameters=list(self.params),
                     rules=[((r[0], dict(r[1])) if len(r) == 2 else (r[0], dict(r[1]), r[2])) for r in self.rules], initial_condition_dict=dict(self.values))


def base_model():
    return Shadow().fresh()


def apply(m, sh, op, ctx_state, c, case):
    """apply one operation to the real model and to the shadow definition"""
    from bioscrape.simulator import py_simulate_model, ModelCSimInterface, SafeModelCSimInterface, SSASimulator
    import bioscrape.random as br
    edited = False
    if op == 'species':
        if 'D' not in sh.species:
            m._add_species('D'); m.set_species({'D': 2.0})
            sh.species.append('D'); sh.values['D'] = 2.0
            edited = True
    elif op == 'r_bad':
        # an edit that is rejected (a Hill rate naming a species that does not exist; a delay whose parameter is not a number or
        # parameter; named rate constants, so that no dummy parameter is created on the way): the definition is unchanged, whatever the call left behind must not matter later
        n_bad = ctx_state['bad'] = ctx_state.get('bad', 0) + 1
        bad = (['A'], ['B', 'B'], 'hillpositive', {'k': 'kf', 'K': 'KK', 'n': 'nn', 's1': 'NoSuchSpecies'}) if n_bad % 2 else \
            (['B'], ['A'], 'massaction', {'k': 'kf'}, 'fixed', ['A'], ['B', 'B'], {'delay': 'A'})
        try:
            m.create_reaction(*[(dict(x) if isinstance(x, dict) else (list(x) if isinstance(x, list) else x)) for x in bad])
        except Exception:
            pass
        else:
            c.violation('C08/rejected-edit-accepted', 'create_reaction accepted %r' % (bad,), case)
        edited = True
    elif op == 'r_late_param':
        # a reaction that brings a new species and a parameter that has no value yet; an initialisation is attempted (and refused),
        # then the parameter is given its value: the definition now contains the reaction, the species (at 0) and the parameter
        if 'kq' not in dict(sh.params):
            rx = (['A'], ['Dq'], 'massaction', {'k': 'kq'})
            m.create_reaction(list(rx[0]), list(rx[1]), rx[2], dict(rx[3]))
            try:
                m.py_initialize()
            except Exception:
                pass
            else:
                c.violation('C08/rejected-edit-accepted', 'a model with a parameter without a value was initialised', case)
            m.set_parameter('kq', 0.45)
            sh.reactions.append(rx)
            sh.params.append(('kq', 0.45))
            if 'Dq' not in sh.species:
                sh.species.append('Dq')
            edited = True
    elif op == 'rule_bad':
        # a rule that is rejected (its right-hand side cannot be parsed; an additive rule over a species that does not exist)
        n_bad = ctx_state['bad_rule'] = ctx_state.get('bad_rule', 0) + 1
        # (an unknown *name* in an assignment is accepted as a parameter to be given a value later, so that is not a rejection)
        typ, eq = ('assignment', 'B = A +* 2') if n_bad % 2 else ('additive', 'B = NoSuchSpecies + A')
        try:
            m.create_rule(typ, {'equation': eq})
        except Exception:
            pass
        else:
            c.violation('C08/rejected-edit-accepted', 'create_rule accepted %r' % eq, case)
        edited = True
    elif op in REACTIONS:
        rx = REACTIONS[op]
        m.create_reaction(*[(dict(x) if isinstance(x, dict) else (list(x) if isinstance(x, list) else x)) for x in rx])
        sh.reactions.append(rx)
        for s in list(rx[0]) + list(rx[1]) + (list(rx[6]) if len(rx) > 4 else []):
            if s not in sh.species:
                sh.species.append(s)
        edited = True
    elif op == 'param':
        name = 'extra%d' % sum(1 for p, _ in sh.params if p.startswith('extra'))
        m.create_parameter(name, 0.25)
        sh.params.append((name, 0.25))
        edited = True
    elif op == 'rule':
        if 'X' not in sh.species:
            m._add_species('X'); m.set_species({'X': 0.0})
            sh.species.append('X'); sh.values['X'] = 0.0
        m.create_rule('assignment', {'equation': 'X = A + 2*B'})
        sh.rules.append(('assignment', {'equation': 'X = A + 2*B'}))
        edited = True
    elif op == 'rule_dt':
        # a counter: not idempotent, so a rule that is registered or applied twice shows
        if 'Y' not in sh.species:
            m._add_species('Y'); m.set_species({'Y': 0.0})
            sh.species.append('Y'); sh.values['Y'] = 0.0
        m.create_rule('assignment', {'equation': 'Y = Y + 1'}, rule_frequency='dt')
        sh.rules.append(('assignment', {'equation': 'Y = Y + 1'}, 'dt'))
        edited = True
    elif op == 'setp':
        v = 1.5 + 0.5 * (1 + sum(1 for _ in ctx_state['setp']))
        ctx_state['setp'].append(v)
        m.set_parameter('kf', v)
        sh.params = [(p, (v if p == 'kf' else val)) for p, val in sh.params]
    elif op == 'setps':
        # Model.set_params (dictionary form); kf is the first parameter of the model (index 0)
        v = 1.5 + 0.25 * (1 + sum(1 for _ in ctx_state['setp']))
        ctx_state['setp'].append(v)
        m.set_params({'kf': v, 'KK': 2.0})
        sh.params = [(p, (v if p == 'kf' else val)) for p, val in sh.params]
    elif op == 'sets':
        v = 5.0 + len(ctx_state['sets']) + 1
        ctx_state['sets'].append(v)
        m.set_species({'A': v})
        sh.values['A'] = v
    elif op == 'init':
        m.py_initialize()
    elif op in ('iface', 'iface_safe'):
        ctx_state['iface'] = (SafeModelCSimInterface(m) if op == 'iface_safe' else ModelCSimInterface(m))
        ctx_state['iface_valid'] = True
    elif op == 'seed':
        br.py_seed_random(1234 + len(ctx_state['setp']))
    elif op == 'other_det':
        # an unrelated model is integrated in between (the ODE right-hand side goes through a module-level pointer)
        from bioscrape.types import Model
        other = Model(species=['Q'], reactions=[(['Q'], [], 'massaction', {'k': 3.0})], initial_condition_dict={'Q': 9.0})
        with warnings.catch_warnings():
            warnings.simplefilter('ignore')
            py_simulate_model(TIMES, Model=other, stochastic=False, return_dataframe=False)
    elif op.startswith('sim'):
        unset0 = lambda d: {k: (0.0 if float(v) == -1.0 else float(v)) for k, v in d.items()}   # -1 is the 'never set' marker, defaulted to 0
        before = (unset0(m.get_species_dictionary()), dict(m.get_parameter_dictionary()))
        kw = {'sim_det': dict(stochastic=False), 'sim_ssa': dict(stochastic=True), 'sim_safe': dict(stochastic=True, safe=True),
              'sim_vol': dict(stochastic=True, volume=2.0), 'sim_delay': dict(stochastic=True, delay=True),
              'sim_delayvol': dict(stochastic=True, delay=True, volume=2.0)}.get(op)
        with warnings.catch_warnings():
            warnings.simplefilter('ignore')
            if op in ('sim_iface', 'sim_iface_det'):
                if ctx_state.get('iface') is not None and ctx_state.get('iface_valid'):
                    ctx_state['iface'].py_set_dt(0.25)
                    if op == 'sim_iface':
                        br.py_seed_random(97 + SEED)
                        r_ = SSASimulator().py_simulate(ctx_state['iface'], TIMES)
                        fm = sh.fresh()
                        fi = (SafeModelCSimInterface if type(ctx_state['iface']).__name__.startswith('Safe') else ModelCSimInterface)(fm)
                        fi.py_set_dt(0.25)
                        br.py_seed_random(97 + SEED)
                        ref_ = SSASimulator().py_simulate(fi, TIMES)
                        a_, b_ = np.asarray(r_.py_get_result()), np.asarray(ref_.py_get_result())
                        o_, f_ = m.get_species_list(), fm.get_species_list()
                        if a_.shape != b_.shape or not np.array_equal(a_[:, [o_.index(s_) for s_ in sorted(o_)]], b_[:, [f_.index(s_) for s_ in sorted(f_)]]):
                            c.violation('C08/history-dependent/kept-interface-ssa', 'seeded SSA through the kept (still current) interface differs from a freshly built '
                                        'model of the same definition', case)
                    else:
                        from bioscrape.simulator import DeterministicSimulator
                        # prepared once per interface object: a later run on the kept interface uses it as it is, whatever was
                        # prepared or integrated elsewhere in between
                        if ctx_state.get('prepared') is not ctx_state['iface']:
                            ctx_state['iface'].py_prep_deterministic_simulation()
                            ctx_state['prepared'] = ctx_state['iface']
                        r_ = DeterministicSimulator().py_simulate(ctx_state['iface'], TIMES)
                        ref_ = py_simulate_model(TIMES, Model=sh.fresh(), stochastic=False, return_dataframe=False)
                        a_, b_ = np.asarray(r_.py_get_result()), np.asarray(ref_.py_get_result())
                        o_, f_ = m.get_species_list(), ref_ and sh.fresh().get_species_list()
                        if a_.shape != b_.shape or not np.allclose(a_[:, [o_.index(s_) for s_ in sorted(o_)]], b_[:, [f_.index(s_) for s_ in sorted(f_)]], rtol=1e-9, atol=1e-9):
                            c.violation('C08/history-dependent/kept-interface-det', 'deterministic simulation through the kept (still current) interface differs from a freshly '
                                        'built model of the same definition', case)
            else:
                py_simulate_model(TIMES, Model=m, return_dataframe=False, **kw)
        after = (unset0(m.get_species_dictionary()), dict(m.get_parameter_dictionary()))
        for a, b, what in ((before[0], after[0], 'initial condition'), (before[1], after[1], 'parameters')):
            if set(a) != set(b) or any(float(a[k]) != float(b[k]) and not (a[k] != a[k] and b[k] != b[k]) for k in a):
                c.violation('C08/simulate-changed-model/%s' % op, '%s changed the model\'s %s: %s -> %s' % (op, what, a, b), case)
    if edited:
        ctx_state['iface_valid'] = False


def observe(m):
    from bioscrape.simulator import py_simulate_model
    import bioscrape.random as br
    obs = {}
    order = m.get_species_list()
    names = sorted(order)
    perm = [order.index(s) for s in names]
    with warnings.catch_warnings():
        warnings.simplefilter('ignore')
        for name, kw in (('ssa', dict(stochastic=True)), ('safe', dict(stochastic=True, safe=True)), ('volume', dict(stochastic=True, volume=2.0)),
                         ('delay', dict(stochastic=True, delay=True)), ('delayvol', dict(stochastic=True, delay=True, volume=2.0))):
            for seed in (11 + SEED, 4242 + 7 * SEED):
                br.py_seed_random(seed)
                r = py_simulate_model(TIMES, Model=m, return_dataframe=False, **kw)
                obs['%s/seed%s' % (name, 'A' if seed == 11 + SEED else 'B')] = np.asarray(r.py_get_result())[:, perm].tolist()
            br.py_seed_random(11 + SEED)
            r = py_simulate_model(TIMES, Model=m, return_dataframe=False, **kw)
            obs['%s/seedA-again' % name] = np.asarray(r.py_get_result())[:, perm].tolist()
            with Stream(SCRIPT, tail=0.6):
                r = py_simulate_model(TIMES, Model=m, return_dataframe=False, **kw)
            obs['%s/scripted' % name] = np.asarray(r.py_get_result())[:, perm].tolist()
        r = py_simulate_model(TIMES, Model=m, stochastic=False, return_dataframe=False)
        obs['det'] = np.round(np.asarray(r.py_get_result())[:, perm], 9).tolist()
        r = py_simulate_model(TIMES, Model=m, stochastic=False, return_dataframe=False)
        obs['det-again'] = np.round(np.asarray(r.py_get_result())[:, perm], 9).tolist()
    obs['species'] = sorted((k, float(v)) for k, v in m.get_species_dictionary().items())
    obs['params'] = sorted((k, float(v)) for k, v in m.get_parameter_dictionary().items())
    obs['S'] = np.asarray(m.py_get_update_array())[perm, :].tolist()
    obs['Sd'] = np.asarray(m.py_get_delay_update_array())[perm, :].tolist()
    return obs


def seed_gap(c, seeds):
    """the same seed gives the same stream and the same trajectories now and more than a second later (seed 0 means 'from the clock')"""
    import time
    from bioscrape.simulator import py_simulate_model
    import bioscrape.random as br
    sh = Shadow()

    def sample(seed):
        br.py_seed_random(seed)
        us = [br.py_uniform_rv() for _ in range(6)] + [br.py_rand_int()]
        br.py_seed_random(seed)
        with warnings.catch_warnings():
            warnings.simplefilter('ignore')
            r = py_simulate_model(TIMES, Model=sh.fresh(), stochastic=True, return_dataframe=False)
        return us, np.asarray(r.py_get_result()).tolist()
    first = {sd: sample(sd) for sd in seeds}
    again = {sd: sample(sd) for sd in seeds}
    time.sleep(1.2)
    later = {sd: sample(sd) for sd in seeds}
    for sd in seeds:
        c.count('states'); c.count('traces'); c.count('evaluations', 3); c.count('transitions', 3)
        if first[sd] != again[sd] or first[sd] != later[sd]:
            c.violation('C08/not-repeatable/seed', 'seed %d gives %s first, %s immediately again and %s 1.2 s later' % (
                sd, first[sd][0][:2], again[sd][0][:2], later[sd][0][:2]), dict(seeds=[sd], seed_gap=True))
        else:
            c.nontrivial(('seed', sd))
    if len({str(v) for v in first.values()}) < 2:
        c.harness_error('all seeds give the same stream')


def lineage_history(c, item):
    """the same definition as a LineageModel, simulated as a single cell several times in a row with the starting cell given with no
    state (it then starts from the Model's initial condition), as a list and as an array: every run of one seed gives the same rows,
    and the Model's initial condition is what it was"""
    from bioscrape.lineage import LineageModel, LineageCSimInterface, LineageSSASimulator, LineageVolumeCellState
    import bioscrape.random as br
    seed, forms = item
    sh = Shadow()
    c.count('states'); c.count('traces')
    with warnings.catch_warnings():
        warnings.simplefilter('ignore')
        m = LineageModel(species=list(sh.species), reactions=[tuple(r) for r in sh.reactions] + [(['B'], ['A'], 'massaction', {'k': 0.4})], parameters=list(sh.params),
                         initial_condition_dict=dict(sh.values))
        iface = LineageCSimInterface(m)
        iface.py_set_dt(0.25)
        x0 = np.array(m.get_species_array(), dtype=float).copy()
        runs = []
        for form in forms:
            v = (LineageVolumeCellState(v0=1.0, t0=0.0) if form == 'none' else
                 LineageVolumeCellState(v0=1.0, t0=0.0, state=[float(z) for z in x0]) if form == 'list' else
                 LineageVolumeCellState(v0=1.0, t0=0.0, state=x0.copy()))
            br.py_seed_random(seed)
            r = LineageSSASimulator().py_SimulateSingleCell(np.array(TIMES, dtype=float), Model=m, interface=iface, v=v)
            runs.append(np.asarray(r.py_get_result()).tolist())
            c.count('evaluations'); c.count('transitions')
            now = np.array(m.get_species_array(), dtype=float)
            if not np.array_equal(now, x0):
                c.violation('C08/simulate-changed-model/lineage-single-cell', 'a single-cell run (starting cell given as %s) changed the model\'s initial condition: %s -> %s' % (
                    form, x0.tolist(), now.tolist()), dict(lineage=[seed, list(forms)]))
                return
    if any(r_ != runs[0] for r_ in runs[1:]):
        k_ = next(i for i, r_ in enumerate(runs) if r_ != runs[0])
        c.violation('C08/not-repeatable/lineage-single-cell', 'run %d (cell given as %s) differs from the first run with the same seed: first rows %s vs %s' % (
            k_, forms[k_], runs[k_][:2], runs[0][:2]), dict(lineage=[seed, list(forms)]))
        return
    c.nontrivial(('lineage', seed, tuple(forms)))


def check(c, hist):
    from .c17 import diff
    c.count('states'); c.count('traces'); c.count('evaluations'); c.count('transitions', len(hist))
    case = dict(history=list(hist))
    sh = Shadow()
    m = sh.fresh()
    st = dict(setp=[], sets=[], iface=None, iface_valid=False)
    try:
        for op in hist:
            apply(m, sh, op, st, c, case)
    except Exception as e:
        c.violation('C08/exception/%s' % hist[-1], 'history %s raised %r' % (list(hist), e), case)
        return
    try:
        o1 = observe(m)
        o2 = observe(sh.fresh())
    except Exception as e:
        c.violation('C08/observe-exception', 'observing after %s raised %r' % (list(hist), e), case)
        return
    for name in ('ssa', 'safe', 'volume', 'delay', 'delayvol'):
        if o1['%s/seedA' % name] != o1['%s/seedA-again' % name]:
            c.violation('C08/not-repeatable/%s' % name, 'seeding with the same seed and simulating twice gives different %s output' % name, case)
    if o1['det'] != o1['det-again']:
        c.violation('C08/not-repeatable/det', 'two deterministic simulations differ', case)
    d = diff(o2, o1)
    if d:
        what = d.split('/')[1].split('[')[0].split(':')[0]
        c.violation('C08/history-dependent/%s' % what, 'after %s the model differs from the same definition built at once: %s' % (list(hist), d), case)
    if any(op in REACTIONS or op in ('rule', 'rule_dt', 'species', 'setp', 'sets') for op in hist):
        c.nontrivial(' '.join(hist))
    if len(c.samples) < 1 and len(hist) >= 3:
        c.sample(dict(history=list(hist), species=o1['species'], ssa_seedA_last_row=o1['ssa/seedA'][-1]))


def run(ctx):
    L = 3 if ctx.quick else 4
    hists = []
    for n in range(1, L + 1):
        hists += list(itertools.product(OPS, repeat=n))
    # kept-interface chains: build an interface, then every sequence of 3 (quick) / 4 (thorough) operations that keep it current
    chain = ['sim_iface', 'sim_iface_det', 'setp', 'setps', 'sets', 'other_det', 'seed']
    for first in ('iface', 'iface_safe'):
        hists += [(first,) + h for h in itertools.product(chain, repeat=3 if ctx.quick else 4)]
        # the same chains on a model that carries a rule (a deterministic run re-applies rules to its result)
        hists += [(rl, first) + h for rl in ('rule', 'rule_dt') for h in itertools.product(chain, repeat=3)]
    if not ctx.quick:
        small = ['r_hill', 'r_gdelay', 'rule', 'rule_dt', 'setp', 'init', 'iface', 'sim_ssa', 'sim_det', 'sim_iface']
        hists += list(itertools.product(small, repeat=5))
        deep = ['r_gdelay', 'rule_dt', 'init', 'sim_ssa', 'sim_det']
        hists += list(itertools.product(deep, repeat=6)) + [h for h in itertools.product(deep[1:], repeat=7)]
    else:
        # deeper than the general bound over small sub-alphabets (a third / fourth initialisation, a fifth simulation)
        deep = ['r_gdelay', 'rule_dt', 'init', 'sim_ssa', 'sim_det', 'setp']
        hists += list(itertools.product(deep, repeat=4)) + list(itertools.product(deep[1:5], repeat=5)) + list(itertools.product(['rule_dt', 'init', 'sim_det'], repeat=6))
    seeds = [1, 2, 1234, 2 ** 31 - 1, 2 ** 31, 2 ** 32 - 1, 2 ** 32, 2 ** 32 + 5, 3 * 2 ** 32, 2 ** 40, 2 ** 53 + 1, 2 ** 63, 2 ** 64 - 1]
    pmap(seed_gap, [seeds[:7], seeds[7:]], ctx, nshards=2)
    lin_items = [(sd, forms) for sd in (11, 4242) for forms in itertools.permutations(('none', 'list', 'array', 'none'), 3)]
    pmap(lineage_history, lin_items, ctx, nshards=8)
    pmap(check, hists, ctx, nshards=512)
    ctx.bounds = dict(history_length=L, alphabet=OPS, histories=len(hists))
    ctx.rule = ('E3: every operation sequence up to the length bound over {add species; add a mass-action / proportional-Hill (named parameters) / '
                'general / fixed-delay / Gaussian-delay reaction; an add-reaction call and an add-rule call that are rejected; a reaction whose parameter is given its value only after a refused initialisation; add a parameter; add a species-assigning repeated rule; add a dt counter rule (not idempotent); set a parameter; set a species value; '
                'py_initialize; build and keep a plain / safe interface; simulate through py_simulate_model in deterministic, SSA, safe, volume '
                'delay and delay+volume mode; simulate (SSA and deterministic) through the kept interface while it is current; integrate an unrelated model in between; seed} is applied to a real Model while a shadow '
                'definition is maintained. After every history: seeded SSA / safe / volume / delay trajectories (2 seeds + a scripted stream), '
                'the deterministic trajectory, dictionaries and both matrices must equal those of a model built at once from the shadow '
                'definition (bit-equal; deterministic rounded to 1e-9); seeding and simulating twice must agree; the dictionaries read before '
                'and after every simulate operation must be identical. Thirteen seeds up to 2^64-1 (incl. multiples of 2^32) must give the same stream and trajectory immediately and 1.2 s later. Histories are not merged (the hidden C-level state is what is under '
                'test); quick adds length 4 over a 6-letter, length 5 over a 4-letter and length 6 over a 3-letter sub-alphabet; thorough adds length 5 over a 10-letter, length 6 over a 5-letter and length 7 over a 4-letter sub-alphabet. states = histories.')
    ctx.assumptions = ['a species that was never given a value reads -1 until the first initialisation defaults it to 0; both are read as 0', 'no rule assigns a parameter (premise of the property)', 'an interface that predates an edit is not driven']


def replay(ctx, case):
    if case.get('lineage'):
        return lineage_history(ctx, (case['lineage'][0], tuple(case['lineage'][1])))
    if case.get('seed_gap'):
        return seed_gap(ctx, case['seeds'])
    check(ctx, tuple(case['history']))
