"""C03 - stoichiometry and net rate equations follow the reaction list (engine E2)."""
import itertools
import numpy as np
from ..core import pmap
from ..util import sequences
from ..ref import crn
from ..modelspec import reaction_tuple

POOL = ['A', 'B', 'C']
STATES = [dict(A=2.0, B=3.0, C=5.0), dict(A=3.0, B=2.55, C=1.0), dict(A=0.5, B=1.5, C=2.5), dict(A=0.0, B=4.0, C=1.0), dict(A=7.0, B=0.0, C=0.5),
          dict(A=1.0, B=1.0, C=1.0)]
TIMES = [0.0, 1.5]
PARAMS = {'kf': 1.7, 'KK': 2.0, 'nn': 2.0, 'tau': 0.3, 'mu': 0.5, 'sd': 0.2, 'sh': 2.0, 'sc': 0.1, 'kg': 0.9}


def propensity_variants():
    ID = lambda s: ('id', s)
    return [
        dict(kind='massaction', k='kf'),
        dict(kind='massaction', k=2.5),
        dict(kind='hillpositive', k='kf', K='KK', n='nn', s1='A'),
        dict(kind='hillnegative', k=1.2, K=2.0, n=1.0, s1='B'),
        dict(kind='proportionalhillpositive', k='kf', K='KK', n='nn', s1='B', d='C'),
        dict(kind='proportionalhillnegative', k='kf', K=1.5, n=2.0, s1='C', d='A'),
        dict(kind='general', rate=('/', ('*', ID('kg'), ID('A')), ('+', ('num', 1), ('*', ID('B'), ('t',))))),
        # a net (reversible) rate: negative at some of the evaluation states, zero at one of them
        dict(kind='general', rate=('-', ('*', ID('kf'), ID('A')), ('*', ID('KK'), ID('B')))),
    ]


def delay_variants():
    return [None, dict(type='fixed', delay='tau'), dict(type='gaussian', mean='mu', std='sd'), dict(type='gamma', k='sh', theta='sc')]


def single_reactions(tier):
    maxlen = 3 if tier == 'quick' else 4
    sides = list(sequences(POOL, 0, maxlen))
    out = []
    pv = propensity_variants()
    dv = delay_variants()
    # every reactant sequence x every product sequence (lengths 0..maxlen) with the first propensity; then a thinner cross with the others
    for ri, r in enumerate(sides):
        for pi, p in enumerate(sides):
            if tier == 'quick' and (ri * 7 + pi) % 5 != 0 and len(r) + len(p) > 3:
                continue
            rx = dict(reactants=r, products=p)
            rx.update(pv[(ri + pi) % 2])
            out.append([rx])
    small = list(sequences(POOL, 0, 2))
    for prop in pv:
        for dl in dv:
            for r in small[::2]:
                for p in small[1::3]:
                    for dr in ([], ['A'], ['C', 'C']):
                        for dp in ([], ['B'], ['A', 'B'], ['B', 'B'], ['C', 'A', 'C']):   # repeats; C on both delayed sides cancels
                            if dl is None and (dr or dp):
                                continue
                            rx = dict(reactants=r, products=p)
                            rx.update(prop)
                            if dl is not None:
                                d = dict(dl); d['reactants'] = dr; d['products'] = dp
                                rx['delay'] = d
                            out.append([rx])
    return out


def reaction_lists(tier):
    ID = lambda s: ('id', s)
    menu = [
        dict(reactants=['A'], products=['B'], kind='massaction', k='kf'),
        dict(reactants=['B'], products=['A'], kind='massaction', k=0.5),
        dict(reactants=['A', 'A'], products=['C'], kind='massaction', k=0.7),
        dict(reactants=['A', 'B'], products=['A', 'C'], kind='massaction', k='kf'),
        dict(reactants=[], products=['A'], kind='hillnegative', k=1.2, K=2.0, n=1.0, s1='C'),
        dict(reactants=['C'], products=[], kind='massaction', k=0.9),
        dict(reactants=['B'], products=['B', 'B'], kind='general', rate=('*', ID('kg'), ID('B'))),
        dict(reactants=['A'], products=['B'], kind='massaction', k=1.1, delay=dict(type='fixed', delay='tau', reactants=[], products=['C'])),
        dict(reactants=['C'], products=[], kind='massaction', k='kf', delay=dict(type='gamma', k='sh', theta='sc', reactants=['B'], products=['A', 'A'])),
        dict(reactants=['A', 'B', 'C'], products=['A'], kind='massaction', k=0.2),
        dict(reactants=['B', 'B', 'A'], products=['C', 'C', 'C'], kind='massaction', k=0.3),
        dict(reactants=[], products=[], kind='massaction', k=1.0),
        dict(reactants=['C'], products=['A'], kind='massaction', k='kf'),
        dict(reactants=['B', 'C'], products=['A'], kind='massaction', k=0.7),
        dict(reactants=['A'], products=['B'], kind='general', rate=('-', ('*', ID('kf'), ID('A')), ('*', ID('KK'), ID('B')))),
    ]
    out = []
    for k in ((2,) if tier == 'quick' else (2, 3)):
        for combo in itertools.permutations(range(len(menu)), k):
            if tier == 'quick' and sum(combo) % 2:
                continue
            if k == 3 and sum(combo) % 3:
                continue
            out.append([menu[i] for i in combo])
    return out


def big_reaction_lists(tier):
    """networks beyond the small pool: 7 species, 6-12 reactions of mixed order, every species on both sides somewhere,
    more reactions than species and fewer; rotations of one list change which reaction sits at which index"""
    ID = lambda s: ('id', s)
    S = BIGPOOL
    base = [
        dict(reactants=[S[0]], products=[S[1]], kind='massaction', k='kf'),
        dict(reactants=[S[1], S[2]], products=[S[3]], kind='massaction', k=0.5),
        dict(reactants=[S[3]], products=[S[1], S[2]], kind='massaction', k=0.7),
        dict(reactants=[S[4], S[4]], products=[S[5]], kind='massaction', k=0.01),
        dict(reactants=[S[5]], products=[S[4], S[4], S[6]], kind='massaction', k='kf'),
        dict(reactants=[], products=[S[6]], kind='hillnegative', k=1.2, K=2.0, n=1.0, s1=S[5]),
        dict(reactants=[S[6]], products=[], kind='massaction', k=0.9),
        dict(reactants=[S[2]], products=[S[2], S[0]], kind='proportionalhillpositive', k='kf', K='KK', n='nn', s1=S[6], d=S[2]),
        dict(reactants=[S[0], S[3], S[6]], products=[S[5], S[5]], kind='massaction', k=0.002),
        dict(reactants=[S[1], S[1], S[1]], products=[S[0]], kind='massaction', k=0.001),
        dict(reactants=[S[6]], products=[S[3]], kind='general', rate=('*', ID('kg'), ('*', ID(S[6]), ID(S[4])))),
        dict(reactants=[S[5]], products=[], kind='massaction', k=1.1, delay=dict(type='fixed', delay='tau', reactants=[S[2]], products=[S[6], S[6], S[0]])),
        dict(reactants=[S[0], S[1], S[2], S[3]], products=[S[4], S[5], S[6]], kind='massaction', k=1e-4),
        dict(reactants=[S[7]], products=[S[8]], kind='massaction', k=0.8),
        dict(reactants=[S[8], S[9]], products=[S[10]], kind='massaction', k=0.05),
        dict(reactants=[S[10]], products=[S[11], S[7]], kind='massaction', k='kf'),
        dict(reactants=[S[11], S[2]], products=[S[9]], kind='hillpositive', k=1.1, K=3.0, n=2.0, s1=S[10]),
    ]
    out = []
    n = len(base)
    for size in ((6, 9, n) if tier == 'quick' else range(5, n + 1)):
        for rot in range(0, n, 1 if tier == 'thorough' else 3):
            lst = [base[(rot + i) % n] for i in range(size)]
            out.append(lst)
            out.append(lst[::-1])
    return out


def declarations():
    """how the species get declared: every permutation explicitly, implicitly by the reactions, only via initial conditions"""
    d = [('explicit', list(p)) for p in itertools.permutations(POOL)]
    d.append(('implicit', None))
    d.append(('ic-only', None))
    d.append(('ic-only-reversed', None))
    d.append(('incremental', None))
    d.append(('shared-dict-constructor', None))
    d.append(('shared-dict-create', None))
    d.append(('create-keywords', None))
    d.append(('create-after-rejected', None))
    d.append(('numpy-names', None))
    return d


BIGPOOL = ['S%d' % i for i in range(12)]           # twelve: the string order of the indices differs from their numeric order
BIGSTATES = [dict(zip(BIGPOOL, v)) for v in ([2.0, 3.0, 5.0, 1.0, 4.0, 0.5, 6.0, 1.5, 2.5, 3.5, 0.25, 8.0], [1.0, 0.0, 2.5, 3.0, 0.0, 7.0, 1.5, 0.0, 4.0, 1.0, 2.0, 0.5],
                                                   [60.0, 55.0, 120.0, 75.0, 90.0, 51.0, 200.0, 66.0, 52.0, 81.0, 99.0, 150.0])]


def build(rxs, decl, POOL=POOL, STATES=STATES):
    from bioscrape.types import Model
    how, order = decl
    if how in ('shared-dict-constructor', 'shared-dict-create'):
        # the caller re-uses ONE parameter dictionary object for several mass-action reactions (p = {'k': ...})
        params = list(PARAMS.items())
        ic = {s: STATES[0][s] for s in POOL}
        shared = {}
        tuples = []
        for r in rxs:
            t = list(reaction_tuple(r))
            if r['kind'] == 'massaction' and 'ma_species' not in r:
                d = shared.setdefault(repr(r['k']), {'k': r['k']})
                t[3] = d
            tuples.append(tuple(t))
        if how == 'shared-dict-constructor':
            return Model(species=list(POOL), reactions=tuples, parameters=params, initial_condition_dict=ic)
        m = Model(species=list(POOL), parameters=params, initial_condition_dict=ic)
        for t in tuples:
            m.create_reaction(*t)
        m.py_initialize()
        return m
    if how == 'numpy-names':
        # species names that are numpy strings (elements of a numpy array of names), counts given as numpy scalars
        params = list(PARAMS.items())
        names = np.array(list(POOL))
        conv = {str(n_): n_ for n_ in names}
        ic = {conv[s]: np.float64(STATES[0][s]) for s in POOL}
        tuples = []
        for r in rxs:
            t = list(reaction_tuple(r))
            t[0] = [conv[x] for x in t[0]]; t[1] = [conv[x] for x in t[1]]
            if len(t) > 4:
                t[5] = [conv[x] for x in t[5]]; t[6] = [conv[x] for x in t[6]]
            tuples.append(tuple(t))
        return Model(species=list(names), reactions=tuples, parameters=params, initial_condition_dict=ic)
    if how == 'create-after-rejected':
        # create_reaction calls that are rejected (unknown species in a Hill rate; a delay parameter that is a species) are
        # interleaved with the valid ones: what they leave behind must not reach the matrices
        params = list(PARAMS.items())
        ic = {s: STATES[0][s] for s in POOL}
        m = Model(species=list(POOL), parameters=params, initial_condition_dict=ic)
        bads = [([POOL[0]], [POOL[1], POOL[1]], 'hillpositive', {'k': 'kf', 'K': 'KK', 'n': 'nn', 's1': 'NoSuchSpecies'}),
                ([POOL[1]], [POOL[0]], 'massaction', {'k': 'kf'}, 'fixed', [POOL[0]], [POOL[2], POOL[2]], {'delay': POOL[0]})]
        for i_, r in enumerate(rxs):
            for bad in (bads if i_ == 0 else bads[i_ % 2:i_ % 2 + 1]):
                try:
                    m.create_reaction(*bad)
                except Exception:
                    pass
                else:
                    raise RuntimeError('harness: a reaction that must be rejected was accepted: %r' % (bad,))
            m.create_reaction(*reaction_tuple(r))
        m.py_initialize()
        return m
    if how == 'create-keywords':
        # the keyword form of create_reaction with every optional argument that carries nothing left out
        params = list(PARAMS.items())
        ic = {s: STATES[0][s] for s in POOL}
        m = Model(species=list(POOL), parameters=params, initial_condition_dict=ic)
        for r in rxs:
            t = reaction_tuple(r)
            kw = dict(reactants=t[0], products=t[1], propensity_type=t[2], propensity_param_dict=t[3])
            if len(t) > 4:
                kw['delay_type'] = t[4]
                kw['delay_param_dict'] = t[7]
                if t[5]:
                    kw['delay_reactants'] = t[5]
                if t[6]:
                    kw['delay_products'] = t[6]
            m.create_reaction(**kw)
        m.py_initialize()
        return m
    if how == 'incremental':
        # the first reaction at construction, an initialisation, then the others one by one (each edit invalidates the model)
        params = list(PARAMS.items())
        ic = {s: STATES[0][s] for s in POOL}
        m = Model(species=list(POOL), reactions=[reaction_tuple(rxs[0])], parameters=params, initial_condition_dict=ic)
        m.py_initialize()
        for r in rxs[1:]:
            m.create_reaction(*reaction_tuple(r))
            m.py_initialize()
        return m
    params = list(PARAMS.items())
    rts = [reaction_tuple(r) for r in rxs]
    ic = {s: STATES[0][s] for s in POOL}
    if how == 'explicit':
        return Model(species=list(order), reactions=rts, parameters=params, initial_condition_dict=ic)
    if how == 'implicit':
        return Model(reactions=rts, parameters=params)
    if how == 'ic-only':
        return Model(reactions=rts, parameters=params, initial_condition_dict=ic)
    return Model(reactions=rts, parameters=params, initial_condition_dict={s: ic[s] for s in reversed(POOL)})


def check_model(c, item):
    from bioscrape.simulator import ModelCSimInterface
    rxs, decl = item[0], item[1]
    big = len(item) > 2 and item[2] == 'big'
    POOL_, STATES_ = (BIGPOOL, BIGSTATES) if big else (POOL, STATES)
    c.count('states')
    key = 'C03/%s%s/' % ('big-' if big else '', decl[0])
    case = dict(reactions=rxs, declaration=decl, big=big)
    try:
        m = build(rxs, decl, POOL_, STATES_)
    except Exception as e:
        if decl[0] in ('explicit', 'incremental', 'shared-dict-constructor', 'shared-dict-create', 'create-keywords', 'create-after-rejected', 'numpy-names'):
            c.violation(key + 'build-exception', 'a valid reaction list with every species declared was rejected: %r' % e, case)
        else:
            c.count('rejected_undeclared')   # a rate refers to a species that this declaration style has not declared yet
        return
    sl = m.get_species_list()
    used = set()
    for r in rxs:
        used |= set(r.get('reactants', [])) | set(r.get('products', []))
        if r.get('delay'):
            used |= set(r['delay'].get('reactants', [])) | set(r['delay'].get('products', []))
        for f in ('s1', 'd'):
            if r.get(f):
                used.add(r[f])
    if decl[0] == 'implicit':
        # species referenced only inside a rate expression are not declared by the reaction list
        pass
    S_ref, Sd_ref = crn.stoich(dict(species=sl, reactions=rxs))
    S = np.asarray(m.py_get_update_array())
    Sd = np.asarray(m.py_get_delay_update_array())
    c.count('evaluations', 2); c.count('transitions', 2)
    if S.shape != (len(sl), len(rxs)) or not np.array_equal(S, np.array(S_ref, dtype=float).reshape(len(sl), len(rxs))):
        c.violation(key + 'immediate-stoichiometry', 'update array %s for species %s, products minus reactants gives %s' % (S.tolist(), sl, S_ref), case)
        return
    if not np.array_equal(Sd, np.array(Sd_ref, dtype=float).reshape(len(sl), len(rxs))):
        c.violation(key + 'delayed-stoichiometry', 'delay update array %s for species %s, delayed products minus reactants gives %s' % (Sd.tolist(), sl, Sd_ref), case)
        return
    missing = [s for s in POOL_ if s not in sl]
    if any(s in used for s in missing if decl[0] != 'implicit'):
        c.violation(key + 'species-missing', 'species %s used by the reactions are not in the model: %s' % (missing, sl), case)
        return
    iface = ModelCSimInterface(m)
    iface.py_prep_deterministic_simulation()
    iface.py_prep_deterministic_simulation()     # preparing again must not change anything
    nontrivial = False
    for x in STATES_:
        xv = np.array([x.get(s, 0.0) for s in sl])
        if any(s not in sl for s in used):
            break
        for t in TIMES:
            try:
                rates = [crn.rate(dict(params=PARAMS), r, x, 'det', 1.0, t) for r in rxs]
            except Exception:
                continue
            exp = [sum((S_ref[i][j] + Sd_ref[i][j]) * rates[j] for j in range(len(rxs))) for i in range(len(sl))]
            dx = np.zeros(len(sl))
            iface.py_calculate_deterministic_derivative(xv.copy(), dx, t)
            c.count('evaluations'); c.count('transitions')
            if any(abs(e) > 0 for e in exp):
                nontrivial = True
            if any(abs(a - b) > 1e-12 * (1 + abs(a) + abs(b)) for a, b in zip(dx, exp)):
                c.violation(key + 'derivative', 'derivative %s at %s t=%s, (S+Sd).rate gives %s (species %s)' % (dx.tolist(), x, t, exp, sl),
                            dict(case, x=x, t=t))
                return
    if nontrivial:
        c.nontrivial(repr((rxs, decl)))
    if len(c.samples) < 2 and len(rxs) > 1:
        c.sample(dict(reactions=rxs, declaration=decl, species_order=sl, S=S.tolist(), Sd=Sd.tolist()))


def check_missing(c, item):
    """a reaction that refers to a parameter without a value makes initialisation fail rather than simulate"""
    from bioscrape.types import Model
    from bioscrape.simulator import ModelCSimInterface, py_simulate_model
    rx, missing = item
    c.count('states'); c.count('evaluations'); c.count('transitions')
    params = [(k, v) for k, v in PARAMS.items() if k != missing]
    case = dict(reaction=rx, missing=missing)
    try:
        m = Model(species=POOL, reactions=[reaction_tuple(rx)], parameters=params, initial_condition_dict=STATES[0])
    except Exception:
        c.nontrivial(repr((rx, missing)))
        # constructing without initialising, then asking for an interface / simulating, must fail as well
        try:
            m2 = Model(species=POOL, reactions=[reaction_tuple(rx)], parameters=params, initial_condition_dict=STATES[0], initialize_model=False)
        except Exception:
            return
        for what, f in (('interface', lambda: ModelCSimInterface(m2)),
                        ('simulate', lambda: py_simulate_model(np.linspace(0, 1, 3), Model=m2, stochastic=False)),
                        ('py_initialize', lambda: m2.py_initialize())):
            c.count('evaluations'); c.count('transitions')
            try:
                f()
            except Exception:
                continue
            c.violation('C03/missing-parameter/%s' % what, '%s succeeded on a model whose parameter %s has no value' % (what, missing), case)
        return
    c.violation('C03/missing-parameter/constructor', 'model with reaction %s initialised although parameter %s has no value' % (rx, missing), case)


def run(ctx):
    singles = single_reactions(ctx.tier)
    lists = reaction_lists(ctx.tier)
    decls = declarations()
    items = []
    for i, rxs in enumerate(singles):
        ds = decls if (ctx.tier == 'thorough' or i % 4 == 0) else [decls[i % len(decls)], decls[(i // 2) % 6]]
        for d in ds:
            items.append((rxs, d))
    for rxs in lists:
        for d in decls:
            items.append((rxs, d))
    bigs = big_reaction_lists(ctx.tier)
    for rxs in bigs:
        for d in ([('explicit', list(BIGPOOL)), ('explicit', list(reversed(BIGPOOL))), ('explicit', BIGPOOL[5:] + BIGPOOL[:5]), ('ic-only', None),
                   ('incremental', None), ('shared-dict-constructor', None), ('shared-dict-create', None), ('create-keywords', None), ('create-after-rejected', None), ('numpy-names', None)]):
            items.append((rxs, d, 'big'))
    pmap(check_model, items, ctx, nshards=256)
    miss = []
    for pv in propensity_variants():
        for dl in delay_variants():
            rx = dict(reactants=['A'], products=['B'])
            rx.update(pv)
            if dl:
                d = dict(dl); d['reactants'] = []; d['products'] = ['C']
                rx['delay'] = d
            names = [v for v in list(pv.values()) + (list(dl.values()) if dl else []) if isinstance(v, str) and v in PARAMS]
            if pv['kind'] == 'general':
                def ids(t):
                    return ([t[1]] if t[0] == 'id' else []) + [x for sub in t[1:] if isinstance(sub, tuple) for x in ids(sub)]
                names += [n_ for n_ in ids(pv['rate']) if n_ in PARAMS]
            for nm in sorted(set(names)):
                miss.append((rx, nm))
    pmap(check_missing, miss, ctx, nshards=32)
    ctx.bounds = dict(single_reaction_models=len(singles), reaction_lists=len(lists), big_reaction_lists=len(bigs), declarations=len(decls), models=len(items),
                      missing_parameter_cases=len(miss))
    ctx.rule = ('E2: single reactions with every reactant x product sequence of length 0..4 over {A,B,C} (quick: 0..3, thinned beyond total '
                'length 3), every propensity type x delay type x delayed reactant/product lists; ordered pairs (thorough: triples) from a '
                '12-reaction menu; each under all declaration styles (6 explicit permutations, implicit by the reactions, via the initial '
                'condition dictionary in two orders, incrementally: first reaction, initialise, then each further reaction followed by an initialisation; and with one parameter dictionary object shared by all mass-action reactions of equal k, through the constructor and through create_reaction; and through the keyword form of create_reaction with empty optional arguments left out; and with rejected create_reaction calls interleaved; and with species names given as numpy strings). In addition rotations / reversals of a 17-reaction list over 12 species (5..17 reactions, orders 0..4, counts up to 200) under seven declaration styles. Oracle: update arrays equal products minus reactants counted with multiplicity '
                '(exact), derivative equals (S+Sd).rate with closed-form rates at 6 states x 2 times (1e-12). Missing value: for every '
                'parameter position a reaction can mention, the model without that value must fail to initialise, build an interface or '
                'simulate. states = models; non-trivial = derivative non-zero somewhere; distinct by (reaction list, declaration).')
    ctx.assumptions = ['closed-form rate laws as in C01; stoichiometry by counting']


def replay(ctx, case):
    if 'missing' in case:
        check_missing(ctx, (case['reaction'], case['missing']))
    else:
        check_model(ctx, (case['reactions'], tuple(case['declaration'])) + (('big',) if case.get('big') else ()))
