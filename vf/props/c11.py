"""C11 - volume-aware simulation scales rates with volume and tracks growth and division (E1 + E2)."""
import math
import numpy as np
from ..core import pmap
from .. import explore as EXP
from .. import e1
from ..nets import spec, ma, ssa_networks
from ..ref import ssa as RS
from ..util import Stream

A, B = 'A', 'B'
TIMES = {'u5': [0.0, 0.25, 0.5, 0.75, 1.0], 'u4h': [0.0, 0.5, 1.0, 1.5], 'u9e': [0.125 * i for i in range(9)],
         'u9': [0.25 * i for i in range(9)]}


def growth_models():
    return [
        spec('G0_no_reactions', [A], {A: 3}, []),
        spec('G1_decay_to_zero', [A], {A: 1}, [ma([A], [], 2.0)]),
        spec('G2_birthdeath', [A], {A: 1}, [ma([], [A], 1.5), ma([A], [], 1.0)]),
        spec('G3_dimer', [A, B], {A: 2, B: 0}, [ma([A, A], [B], 1.5), ma([B], [A, A], 0.5)]),
    ]


def configs(tier):
    out = []
    Vs = [0.5, 2.0] if tier == 'quick' else [0.25, 0.5, 2.0, 4.0]
    nets = ssa_networks(2, 1.5, 0.5) + ([ssa_networks(3, 0.7, 2.0)[i] for i in (2, 4, 5)] if tier == 'thorough' else [])
    # zero-order channel (k*V law) is in N2; add an explicit order-0 + order-3 mix
    nets.append(spec('NV_orders', [A, B], {A: 3, B: 0}, [ma([], [A], 0.8), ma([A, A, A], [B], 0.6), ma([B], [A], 0.5)]))
    for V in Vs:
        for sp in nets:
            for safe in (False, True):
                for route in ('sim', 'entry'):
                    if tier == 'quick' and route == 'entry' and safe:
                        continue
                    out.append(dict(kind='const', spec=sp, V=V, safe=safe, route=route, grid='u5',
                                    bound=3 if (tier == 'thorough' or (route == 'sim' and not safe)) else 2))
    # the same time values as a strided view / a table column (gaps hold other plausible times)
    for sp in nets[:6]:
        out.append(dict(kind='const', spec=sp, V=2, safe=False, route='sim', grid='u5', bound=2, times_repr='strided'))
        out.append(dict(kind='const', spec=sp, V=0.5, safe=True, route='entry', grid='u5', bound=2, times_repr='column'))
    # growth and division
    grids = ['u5', 'u9e'] if tier == 'quick' else ['u5', 'u4h', 'u9e', 'u9']
    for sp in growth_models():
        for g in grids:
            for vol in growth_volumes(tier):
                for t0 in (0.0, 0.5):
                    if t0 and (tier == 'quick' and g != 'u5'):
                        continue
                    out.append(dict(kind='growth', spec=sp, grid=g, vol=vol, safe=False, t0=t0, bound=2))
                    if g == 'u5' and t0 == 0.0 and vol.get('z') in (None, -1.0):
                        out.append(dict(kind='growth', spec=sp, grid=g, vol=vol, safe=False, t0=t0, bound=2, times_repr='strided'))
                    # a grid whose first point lies after the interface's initial time (the volume grows from the initial time on)
                    # The lead is a whole number of volume steps (the oracles place volume steps on grid times) and short enough for
                    # every division of the alphabet to fall inside the grid: a cell that divides before the first requested time is
                    # reported with no rows at all, which the property does not speak about.
                    if g == 'u5' and (tier == 'thorough' or vol.get('z') in (None, -1.0)):
                        for lead in ((0.25,) if (tier == 'quick' or vol.get('cycle', 0) < 2.5) else (0.25, 0.5)):
                            out.append(dict(kind='growth', spec=sp, grid=g, vol=vol, safe=False, t0=t0, lead=lead, bound=2))
    return out


def growth_volumes(tier):
    out = []
    cycles = [1.0, 0.7] if tier == 'quick' else [1.0, 0.7, 2.5]
    for cyc in cycles:
        for z in ([None, -1.0, 1.5] if tier == 'quick' else [None, -2.0, -1.0, 0.5, 1.5]):
            out.append(dict(type='growth', cycle=cyc, divvol=1.9, noise=0.0 if z is None else 0.3, z=z, V0=1.0))
    out.append(dict(type='growth', cycle=1.0, divvol=1.9, noise=0.3, z=-1.0, V0=1.0, reused=True))
    out.append(dict(type='growth', cycle=0.7, divvol=1.9, noise=0.0, z=None, V0=1.0, reused=True))
    out.append(dict(type='state', rate_tree=('*', ('num', 0.4), ('id', A)), divvol=2.0, noise=0.0, z=None, V0=1.0))
    out.append(dict(type='state', rate_tree=('/', ('num', 1.2), ('+', ('num', 1), ('id', A))), divvol=1.6, noise=0.2, z=1.0, V0=1.0))
    return out


def make_volume(vol, impl, t0=0.0):
    """build and initialise the real volume object under a scripted stream; returns (object, reference volume spec)"""
    from bioscrape.types import StochasticTimeThresholdVolume, StateDependentVolume
    z = vol['z']
    script = list(RS.bm_pair(z)) if z is not None else list(RS.bm_pair(0.0))
    state = np.array(impl.x0, dtype=float)
    params = impl.model.get_parameter_values()
    if vol['type'] == 'growth':
        v = StochasticTimeThresholdVolume(vol['cycle'], vol['divvol'], vol['noise'])
        if vol.get('reused'):
            # the same object served another cell before (earlier start, other volume): only the last initialisation counts
            # (twice: a cycle that lay in the past and one whose division time is a positive number)
            with Stream(list(RS.bm_pair(0.7))):
                v.py_initialize(state, params, t0 - 3.0, vol['V0'] * 0.6)
            with Stream(list(RS.bm_pair(-0.4))):
                v.py_initialize(state, params, t0 + 1.0, vol['V0'] * 0.8)
        with Stream(script) as st:
            v.py_initialize(state, params, t0, vol['V0'])
        rate = math.log(2.0) / vol['cycle']
        time_left = math.log(vol['divvol'] / vol['V0']) / rate
        factor = RS.normal_from(script[0], script[1], 1.0, vol['noise'])
        ref = dict(type='growth', V0=vol['V0'], rate=rate, division_time=t0 + factor * time_left, t0=t0)
    else:
        v = StateDependentVolume()
        v.setup(vol['divvol'], vol['noise'], EXr(vol['rate_tree']), impl.model)
        with Stream(script) as st:
            v.py_initialize(state, params, t0, vol['V0'])
        factor = RS.normal_from(script[0], script[1], 1.0, vol['noise'])
        ref = dict(type='state', V0=vol['V0'], rate_tree=vol['rate_tree'], division_volume=vol['divvol'] * factor)
    return v, ref, st.consumed


def EXr(tree):
    from ..ref import expr as EX
    return EX.render(EX.totuple(tree))


def run_config(c, cfg):
    sp = cfg['spec']
    t0 = cfg.get('t0', 0.0)
    times = [t0 + cfg.get('lead', 0.0) + t for t in TIMES[cfg['grid']]]
    vdt = times[1] - times[0]
    impl = e1.Impl(sp, cfg['safe'])
    impl.times_repr = cfg.get('times_repr', 'plain')
    net = RS.Net(sp, 'stochvol', cfg['safe'])
    states, outcomes = set(), set()
    first = [True]
    if cfg['kind'] == 'const':
        vref = dict(type='const', V=cfg['V'])
    else:
        _, vref, used = make_volume(cfg['vol'], impl, t0)
        if used != 2:
            c.violation('C11/volume-init/draws', 'volume initialisation consumed %d uniforms, expected one normal variate (2)' % used, dict(cfg=cfg))

    def impl_run(us):
        if cfg['kind'] == 'const' and cfg['route'] == 'entry':
            from bioscrape.simulator import py_simulate_model
            with Stream(us) as st:
                # the volume number in another spelling of the same value (int, numpy integer, 32-bit float), chosen by the network
                Vx = cfg['V']
                k_ = sum(map(ord, sp['name'])) % 4
                if float(Vx) == int(Vx) and k_ == 1:
                    Vx = int(Vx)
                elif float(Vx) == int(Vx) and k_ == 2:
                    Vx = np.int64(int(Vx))
                elif k_ == 3:
                    Vx = np.float32(Vx)            # 0.25, 0.5, 2 and 4 are exact in single precision
                res = py_simulate_model(impl.grid(times), Model=impl.model, stochastic=True, safe=cfg['safe'], volume=Vx,
                                        return_dataframe=False)
            return dict(rows=impl.rows(res.py_get_result()), consumed=st.consumed, overrun=st.overrun,
                        vols=[float(z) for z in res.py_get_volume()], divided=bool(res.py_cell_divided()),
                        times=[float(z) for z in res.py_get_timepoints()])
        vobj = None
        if cfg['kind'] == 'growth':
            if cfg['vol']['type'] == 'growth':
                # another growing volume object with a different cell cycle is stepped with the same dt first: nothing it computes may
                # be re-used by the object under test
                from bioscrape.types import StochasticTimeThresholdVolume
                decoy = StochasticTimeThresholdVolume(cfg['vol']['cycle'] * 3.7 + 0.4, 5.0, 0.0)
                with Stream(list(RS.bm_pair(0.0))):
                    decoy.py_initialize(np.array(impl.x0, dtype=float), impl.model.get_parameter_values(), t0, 1.0)
                decoy.py_get_volume_step(np.array(impl.x0, dtype=float), impl.model.get_parameter_values(), t0, 1.0, vdt)
            vobj = make_volume(cfg['vol'], impl, t0)[0]
        return e1.run_volume(impl, us, times, vdt, vref, t0=t0, volume_obj=vobj)

    def on_trace(choices, menus, ref):
        got = impl_run(ref['us'])
        c.count('traces'); c.count('evaluations'); c.count('transitions', len(choices))
        if first[0]:
            first[0] = False
            if impl_run(ref['us']) != got:
                c.harness_error('non-deterministic replay ' + sp['name'])
        case = dict(cfg=cfg, us=ref['us'], ref=dict(rows=ref['rows'], vols=ref['vols'], divided=ref['divided']),
                    impl=dict(rows=got['rows'], vols=got['vols'], divided=got['divided'], times=got['times']),
                    letters=[m.letters[ch].name for m, ch in zip(menus, choices)])
        pre = 'C11/%s/%s/' % (cfg['kind'] if cfg['kind'] == 'const' else cfg['vol']['type'], sp['name'])
        if cfg['kind'] == 'growth':
            # oracle on the implementation's own output (independent of the reference loop)
            inv = growth_invariants(cfg, times, vdt, vref, got)
            if inv:
                c.violation(pre + inv[0], inv[1], case)
        bad = e1.compare(ref, got)
        if bad:
            c.violation(pre + bad[0], bad[1], case)
        elif any(abs(a - b) > 1e-9 * (1 + abs(a)) for a, b in zip(ref['vols'], got['vols'])) or len(ref['vols']) != len(got['vols']):
            c.violation(pre + 'volume-trace', 'volume trace differs: reference %s implementation %s' % (ref['vols'], got['vols']), case)
        elif ref['divided'] != got['divided'] or ref['times'] != got['times']:
            c.violation(pre + 'division', 'division flag / time axis differ: reference %s %s implementation %s %s' % (
                ref['divided'], ref['times'], got['divided'], got['times']), case)
        for v in ref['visited']:
            states.add(v)
        outcomes.add((tuple(map(tuple, ref['rows'])), tuple(ref['vols'])))
        if len(c.samples) < 2 and len(ref['us']) > 2:
            c.sample(dict(network=sp['name'], volume=vref, times=times, letters=case['letters'], rows=ref['rows'], vols=ref['vols'],
                          divided=ref['divided']))
    EXP.explore(lambda: RS.volume_ssa(net, times, vdt, vref, t0=t0), cfg['bound'], on_trace)
    c.count('states', len(states))
    if len(outcomes) > 1 or cfg['kind'] == 'growth':
        c.nontrivial((sp['name'], cfg['kind'], str(cfg.get('V')), str(cfg.get('vol')), cfg['grid'], cfg['safe'], cfg.get('route'), cfg.get('t0'), cfg.get('lead')))


def growth_invariants(cfg, times, vdt, vref, got):
    vols, T = got['vols'], got['times']
    if len(vols) != len(T) or len(got['rows']) != len(T):
        return 'shape', 'rows/volume/time axis lengths differ: %d %d %d' % (len(got['rows']), len(vols), len(T))
    if T != list(times[:len(T)]):
        return 'time-axis', 'time axis %s is not a prefix of the request %s' % (T, times)
    if any(v <= 0 for v in vols):
        return 'volume-positive', 'reported volume is not positive: %s' % vols
    if any(b < a * (1 - 1e-12) for a, b in zip(vols, vols[1:])):
        return 'volume-monotone', 'reported volume decreases: %s' % vols
    if vref['type'] == 'growth':
        G = lambda t: vref['V0'] * math.exp(vref['rate'] * max(t - vref.get('t0', 0.0), 0.0))
        for t, v in zip(T, vols):
            lo, hi = G(t - vdt) * (1 - 1e-9), G(t + vdt) * (1 + 1e-9)
            if not (lo <= v <= hi):
                return 'growth-law', 'V(%.4g) = %.6g is not within one time step of the growth law [%.6g, %.6g]' % (t, v, lo, hi)
        # first grid time at which the volume model reports division (division time in (T - dt, T])
        td = vref['division_time']
        first_div = None
        k = 1
        while times[0] + k * vdt <= times[-1] + 1e-12:
            s = times[0] + k * vdt
            if td > s - vdt and td <= s:
                first_div = s
                break
            k += 1
        if first_div is not None and first_div <= times[-1] + 1e-9:
            exp_T = [t for t in times if t <= first_div]
            if not got['divided'] or T != exp_T:
                return 'division-end', 'division at step time %.4g: expected flagged result ending at %s, got divided=%s, times %s' % (
                    first_div, exp_T[-1:], got['divided'], T[-3:])
        else:
            if got['divided'] or len(T) != len(times):
                return 'division-end', 'no division inside the grid, but divided=%s and %d of %d rows' % (got['divided'], len(T), len(times))
    return None


def run(ctx):
    cfgs = configs(ctx.tier)
    ctx.bounds = dict(configs=len(cfgs), cost_bound=max(c['bound'] for c in cfgs), grids=TIMES)
    ctx.rule = ('E1+E2: (i) constant volume V: every C05 network (all propensity types, orders 0..3) plus an order-0/order-3 mix, plain '
                'and safe, through VolumeSSASimulator and through py_simulate_model(volume=V): the choice tree of the reference volume '
                'sampler (volume-scaled closed-form rates) is explored to the cost bound and every trace replayed; (ii) growth and '
                'division: StochasticTimeThresholdVolume (cycle times x scripted division-time noise) and StateDependentVolume x start times {0, 0.5} x grids that start at or after the initial time (lead 0, 0.25; thorough also 0.5 for the slowest cycle) x grid '
                'steps {0.125,0.25,0.5} x models with no reactions, with reactions, and whose propensity becomes zero mid-run: every '
                'trace replayed, and the implementation\'s own output checked against the growth law (positive, non-decreasing, within '
                'one step of V0*2^(t/cycle), ends at the first grid time at which division is reported). The time grid is also handed over as a strided view whose gaps hold the midpoints and as a table column next to shifted times (simulator objects and entry point); the conformance oracle is unchanged. states = distinct (state, '
                'grid index) of the reference.')
    ctx.assumptions = ['direct-method mapping as in C05', 'growth law of StochasticTimeThresholdVolume: V0*exp(ln2/cycle * t)']
    pmap(run_config, cfgs, ctx, nshards=len(cfgs))


def replay(ctx, case):
    cfg = case['cfg']
    c2 = type(ctx).__mro__[1]()
    run_config(c2, cfg)
    for k, v in c2.violations.items():
        ctx.violation(k, v['msg'], v['case'])
