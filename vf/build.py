"""Build the tree under test in place (DESIGN.md 3.1).

ensure() makes the compiled extension modules of REPO correspond to REPO's current working
tree.  It is serialised by an exclusive flock (one per tree) so that concurrent checks wait for one build
instead of racing the compiler.  REPO is /repo unless VERIF_REPO names another tree (used for
mutation worktrees only)."""
import fcntl, hashlib, json, os, subprocess, sys, time, glob

REPO = os.environ.get('VERIF_REPO', '/repo')
VERIF = os.path.dirname(os.path.dirname(os.path.abspath(__file__)))
CACHE = os.path.join(VERIF, '.cache')
PY = '/venv/bin/python'

MODULES = {  # extension name -> source
    'random': 'bioscrape/random.pyx',
    'types': 'bioscrape/types.pyx',
    'simulator': 'bioscrape/simulator.pyx',
    'inference': 'bioscrape/inference.pyx',
    'lineage': 'lineage/lineage.pyx',
}


def _sha(path):
    h = hashlib.sha1()
    with open(path, 'rb') as f:
        h.update(f.read())
    return h.hexdigest()


def _so(name):
    g = glob.glob(os.path.join(REPO, 'bioscrape', name + '.cpython-*.so'))
    return g[0] if g else None


def _state():
    pxd = sorted(glob.glob(os.path.join(REPO, 'bioscrape', '*.pxd')) +
                 glob.glob(os.path.join(REPO, 'lineage', '*.pxd')))
    h = hashlib.sha1()
    for p in pxd + [os.path.join(REPO, 'setup.py')]:
        h.update(p.encode()); h.update(_sha(p).encode())
    st = {'pxd': h.hexdigest(), 'mods': {}}
    for name, src in MODULES.items():
        so = _so(name)
        st['mods'][name] = {'src': _sha(os.path.join(REPO, src)),
                            'so': _sha(so) if so else None}
    return st


def _stamp_path():
    tag = hashlib.sha1(REPO.encode()).hexdigest()[:10]
    return os.path.join(CACHE, 'build_stamp_%s.json' % tag)


def source_digest():
    """digest of everything that defines behaviour (for evidence files)"""
    h = hashlib.sha1()
    files = sorted(glob.glob(os.path.join(REPO, 'bioscrape', '*.p*')) +
                   glob.glob(os.path.join(REPO, 'lineage', '*.p*')))
    for p in files:
        if p.endswith(('.pyx', '.pxd', '.py')):
            h.update(os.path.relpath(p, REPO).encode()); h.update(_sha(p).encode())
    return h.hexdigest()[:16]


def ensure(verbose=True):
    if os.environ.get('VERIF_NOBUILD') == '1':   # mutation worktrees that are already built
        return False
    os.makedirs(CACHE, exist_ok=True)
    lock = open(os.path.join(CACHE, 'build_%s.lock' % hashlib.sha1(REPO.encode()).hexdigest()[:10]), 'w')    # one lock per tree
    fcntl.flock(lock, fcntl.LOCK_EX)
    try:
        cur = _state()
        try:
            old = json.load(open(_stamp_path()))
        except Exception:
            old = None
        stale = []
        if old is None or old.get('pxd') != cur['pxd']:
            stale = list(MODULES)
        else:
            for name in MODULES:
                o = old['mods'].get(name, {})
                c = cur['mods'][name]
                if c['so'] is None or o.get('src') != c['src'] or o.get('so') != c['so']:
                    stale.append(name)
        if not stale:
            return False
        t0 = time.time()
        if verbose:
            print('[build] rebuilding %s in %s' % (','.join(stale), REPO), flush=True)
        for name in stale:  # remove generated files so that setuptools rebuilds exactly these
            src = os.path.join(REPO, MODULES[name])
            for p in [src[:-4] + '.cpp', _so(name)]:
                if p and os.path.exists(p):
                    os.remove(p)
        env = dict(os.environ)
        env.pop('BIOSCRAPE_VERIF', None)
        r = subprocess.run([PY, 'setup.py', 'build_ext', '--inplace', '-j', '5'], cwd=REPO,
                           stdout=subprocess.PIPE, stderr=subprocess.STDOUT, env=env)
        if r.returncode != 0 or any(_so(n) is None for n in MODULES):
            sys.stdout.write(r.stdout.decode(errors='replace')[-6000:])
            print('[build] FAILED (harness error, not a property verdict)', flush=True)
            sys.exit(2)
        json.dump(_state(), open(_stamp_path(), 'w'))
        if verbose:
            print('[build] done in %.0fs' % (time.time() - t0), flush=True)
        return True
    finally:
        fcntl.flock(lock, fcntl.LOCK_UN)
        lock.close()


def activate():
    """make `import bioscrape` resolve to REPO"""
    if REPO not in sys.path:
        sys.path.insert(0, REPO)
    os.environ['BIOSCRAPE_VERIF'] = '1'
