"""Collector / context, parallel map, evidence and findings (DESIGN.md 3.5)."""
import fnmatch, hashlib, json, os, re, sys, time, traceback, multiprocessing as mp

VERIF = os.path.dirname(os.path.dirname(os.path.abspath(__file__)))
NPROC = int(os.environ.get('VERIF_NPROC', '16'))
MAX_SAMPLES = 8


def jsonable(o):
    import numpy as np
    if isinstance(o, dict):
        return {str(k): jsonable(v) for k, v in o.items()}
    if isinstance(o, (list, tuple, set, frozenset)):
        return [jsonable(v) for v in o]
    if isinstance(o, np.ndarray):
        return jsonable(o.tolist())
    if isinstance(o, (np.integer,)):
        return int(o)
    if isinstance(o, (np.floating,)):
        o = float(o)
    if isinstance(o, float):
        if o != o:
            return 'nan'
        if o in (float('inf'), float('-inf')):
            return 'inf' if o > 0 else '-inf'
        return o
    if isinstance(o, (int, str, bool)) or o is None:
        return o
    return repr(o)


class Collector:
    """What a (shard of a) check observed.  Mergeable; picklable."""

    def __init__(self):
        self.counters = {}
        self.samples = []
        self.violations = {}     # class key -> dict(msg, case, count)
        self.distinct = set()    # keys of distinct non-trivial cases
        self.notes = {}
        self.errors = []         # harness errors (exit 2)

    def count(self, name, n=1):
        self.counters[name] = self.counters.get(name, 0) + n

    def sample(self, obj):
        if len(self.samples) < MAX_SAMPLES:
            self.samples.append(jsonable(obj))

    def nontrivial(self, key):
        if not isinstance(key, (int, str)):
            key = repr(key)
        if isinstance(key, str) and len(key) > 24:
            key = hashlib.blake2b(key.encode(), digest_size=8).hexdigest()
        self.distinct.add(key)

    def violation(self, key, msg, case):
        v = self.violations.get(key)
        if v is None:
            self.violations[key] = {'msg': msg, 'case': jsonable(case), 'count': 1}
        else:
            v['count'] += 1

    def harness_error(self, msg):
        if len(self.errors) < 20:
            self.errors.append(msg)

    def note(self, k, v):
        self.notes[k] = v

    def tally(self, name, key, n=1):
        d = self.notes.setdefault(name, {})
        d[key] = d.get(key, 0) + n

    def merge(self, other):
        for k, v in other.counters.items():
            self.counters[k] = self.counters.get(k, 0) + v
        for s in other.samples:
            if len(self.samples) < MAX_SAMPLES:
                self.samples.append(s)
        for k, v in other.violations.items():
            if k in self.violations:
                self.violations[k]['count'] += v['count']
            else:
                self.violations[k] = v
        self.distinct |= other.distinct
        for k, v in other.notes.items():
            if isinstance(v, (int, float)) and isinstance(self.notes.get(k), (int, float)):
                self.notes[k] += v
            elif isinstance(v, dict) and isinstance(self.notes.get(k), dict):
                for kk, vv in v.items():
                    if isinstance(vv, (int, float)) and isinstance(self.notes[k].get(kk), (int, float)):
                        self.notes[k][kk] += vv
                    else:
                        self.notes[k].setdefault(kk, vv)
            else:
                self.notes.setdefault(k, v)
        self.errors.extend(other.errors)
        return self


def _worker_exception(c, func, it, e, pidname):
    """an exception that escaped a worker: raised from inside the library (its innermost frames are bioscrape's) on a case the
    harness built -> the implementation failed from inside on an input the check treats as valid: a violation of class
    <pid>/impl-exception (replayable); anything else is an error of the harness itself. Returns True to continue with the next item."""
    tb = traceback.extract_tb(e.__traceback__)
    here = os.path.dirname(os.path.abspath(__file__))
    harness_idx = [i for i, fr in enumerate(tb) if os.path.abspath(fr.filename).startswith(here)]
    inner = tb[(harness_idx[-1] + 1) if harness_idx else 0:]
    from_library = any(('bioscrape' in fr.filename or fr.filename.endswith('.pyx') or 'lineage' in os.path.basename(fr.filename)) for fr in inner)
    if from_library and not isinstance(e, (KeyboardInterrupt, SystemExit, MemoryError)):
        where = next((fr for fr in reversed(inner) if 'bioscrape' in fr.filename or fr.filename.endswith('.pyx')), inner[-1])
        c.violation('%s/impl-exception/%s/%s' % (pidname, getattr(func, '__name__', 'worker'), type(e).__name__),
                    'the implementation raised %r (in %s, %s) on a case the check treats as valid' % (e, os.path.basename(where.filename), where.name),
                    dict(func='%s:%s' % (func.__module__, func.__name__), crash_item=jsonable(it)))
        return True
    c.harness_error('worker raised on item %s: %r\n%s' % (str(it)[:300], e, traceback.format_exc()[-1500:]))
    return False


def _run_items(func, items):
    c = Collector()
    for it in items:
        try:
            func(c, it)
        except BaseException as e:   # a crash of the harness itself
            c.harness_error('worker raised on item %s: %r\n%s' % (
                str(it)[:300], e, traceback.format_exc()[-1500:]))
            break
    return c


ITEM_CPU_BUDGET = float(os.environ.get('VERIF_ITEM_CPU_S', '0') or 0)


def _cpu_seconds(pid):
    try:
        f = open('/proc/%d/stat' % pid).read().rsplit(')', 1)[1].split()
        return (int(f[11]) + int(f[12])) / float(os.sysconf('SC_CLK_TCK'))
    except Exception:
        return 0.0


def pmap(func, items, into, nshards=None, nproc=None, item_cpu_s=None):
    """Run func(collector, item) for every item, sharded over forked children, and merge the
    collectors into `into`.
    * A child that dies from a signal (the implementation crashed) does not hang the run: its shard is
      bisected until the single crashing item is isolated, reported as a violation of class <pid>/impl-crash.
    * A child that spends more than the per-item CPU budget on ONE item (CPU time of the child, so machine load
      does not matter; the budget is far above what any item needs on the unchanged tree) is killed; the item
      is reported as a violation of class <pid>/impl-hang and the rest of its shard is re-queued."""
    import mmap, pickle, select, signal, struct
    items = list(items)
    if not items:
        return into
    nproc = nproc or NPROC
    nshards = nshards or max(nproc * 4, 1)
    n = max(1, min(nshards, len(items)))
    queue = [items[i::n] for i in range(n)]
    budget = item_cpu_s or ITEM_CPU_BUDGET or (600.0 if getattr(into, 'tier', 'quick') == 'quick' else 3600.0)
    pidname = getattr(into, 'pid', 'X')
    running = {}   # fd -> dict(pid, shard, buf, shm, last_index, cpu_at_item_start)
    hangs = 0
    while queue or running:
        while queue and len(running) < nproc:
            sh = queue.pop(0)
            r, w = os.pipe()
            shm = mmap.mmap(-1, 8)
            shm.write(struct.pack('q', -1)); shm.seek(0)
            pid = os.fork()
            if pid == 0:
                code = 0
                try:
                    os.close(r)
                    dn = os.open(os.devnull, os.O_WRONLY)   # the library prints from inside (e.g. 'Initializing ODE Rule')
                    os.dup2(dn, 1)
                    c = Collector()
                    for k, it in enumerate(sh):
                        shm.seek(0); shm.write(struct.pack('q', k))
                        try:
                            func(c, it)
                        except BaseException as e:
                            if not _worker_exception(c, func, it, e, pidname):
                                break
                    data = pickle.dumps(c, protocol=pickle.HIGHEST_PROTOCOL)
                    with os.fdopen(w, 'wb') as f:
                        f.write(data)
                except BaseException:
                    traceback.print_exc()
                    code = 3
                finally:
                    os._exit(code)
            os.close(w)
            running[r] = dict(pid=pid, shard=sh, buf=[], shm=shm, last=-1, cpu0=0.0)
        ready, _, _ = select.select(list(running), [], [], 2.0)
        # watchdog: CPU time spent on the current item
        for fd in list(running):
            st = running[fd]
            st['shm'].seek(0)
            k = struct.unpack('q', st['shm'].read(8))[0]
            cpu = _cpu_seconds(st['pid'])
            if k != st['last']:
                st['last'], st['cpu0'] = k, cpu
            elif k >= 0 and cpu - st['cpu0'] > budget and fd not in ready:
                os.kill(st['pid'], signal.SIGKILL)
                os.waitpid(st['pid'], 0)
                os.close(fd)
                del running[fd]
                into.violation('%s/impl-hang' % pidname, 'the implementation did not finish this case within %.0f s of CPU time '
                               '(cases of this check need seconds)' % budget, {'hang_item': jsonable(st['shard'][k]), 'func': func.__module__ + ':' + func.__name__})
                into.count('evaluations', 1)
                rest = st['shard'][:k] + st['shard'][k + 1:]
                hangs += 1
                if hangs == 1:
                    budget = min(budget, 90.0)          # the violation is established; do not spend the full budget on every further case
                if hangs >= 4:
                    # repeated hangs: the remaining cases of this call are not run (the run is no longer a complete exploration; it is a
                    # failed one in any case)
                    into.note('aborted_after_repeated_hangs', {func.__name__: len(queue) + len(running)})
                    queue[:] = []
                elif rest:
                    queue.insert(0, rest)      # results of the finished items were lost with the child: redo them
        for fd in ready:
            if fd not in running:
                continue
            chunk = os.read(fd, 1 << 20)
            st = running[fd]
            if chunk:
                st['buf'].append(chunk)
                continue
            os.close(fd)
            del running[fd]
            _, status = os.waitpid(st['pid'], 0)
            data = b''.join(st['buf'])
            sh = st['shard']
            if os.WIFSIGNALED(status) or not data:
                sig = os.WTERMSIG(status) if os.WIFSIGNALED(status) else -1
                if len(sh) > 1:
                    h = len(sh) // 2
                    queue.insert(0, sh[h:])
                    queue.insert(0, sh[:h])
                else:
                    if sig in (signal.SIGSEGV, signal.SIGBUS, signal.SIGABRT, signal.SIGFPE, signal.SIGILL):
                        into.violation('%s/impl-crash/signal%d' % (pidname, sig),
                                       'the implementation crashed the process (signal %d) on this case' % sig,
                                       {'crash_item': jsonable(sh[0]), 'func': func.__module__ + ':' + func.__name__})
                        into.count('evaluations', 1)
                    else:
                        into.harness_error('worker died (status %r) on item %s' % (status, str(sh[0])[:300]))
                continue
            into.merge(pickle.loads(data))
    return into


def replay_item(ctx, case, budget=120.0):
    """re-execute a crash / hang case: the recorded worker function on the recorded item, in a child"""
    import importlib
    modname, fname = case['func'].split(':')
    func = getattr(importlib.import_module(modname), fname)
    item = case.get('crash_item', case.get('hang_item'))

    def totuple(o):
        return tuple(totuple(x) for x in o) if isinstance(o, list) else o
    pmap(func, [totuple(item)], ctx, nshards=1, nproc=1, item_cpu_s=budget)


def shard_list(items, n):
    items = list(items)
    n = max(1, min(n, len(items)))
    return [items[i::n] for i in range(n)]


class Ctx(Collector):
    def __init__(self, pid, tier, seed):
        super().__init__()
        self.pid, self.tier, self.seed = pid, tier, seed
        self.t0 = time.time()
        self.rule = ''
        self.assumptions = []
        self.exhaustive = True
        self.bounds = {}

    @property
    def quick(self):
        return self.tier == 'quick'


def load_findings():
    p = os.path.join(VERIF, 'known_findings.json')
    try:
        return json.load(open(p)).get('findings', [])
    except FileNotFoundError:
        return []


def _safe(key):
    return re.sub(r'[^A-Za-z0-9_.-]+', '_', key)[:120]


def finish(ctx, write_evidence=True):
    """print verdict lines, write evidence, return exit code"""
    findings = [f for f in load_findings() if f.get('property') == ctx.pid and f.get('status') == 'open']
    new, known = [], {}
    for key, v in sorted(ctx.violations.items()):
        hit = None
        for f in findings:
            if fnmatch.fnmatchcase(key, f['key']):
                hit = f
                break
        if hit is not None:
            known.setdefault(hit['key'], [hit, 0])[1] += v['count']
        else:
            new.append((key, v))
    for k, (f, n) in known.items():
        print('KNOWN-FINDING: property=%s %s [key=%s, %d occurrence(s) this run]' % (ctx.pid, f['what'], k, n))
    rdir = os.path.join(VERIF, 'replays', ctx.pid)
    for key, v in new:
        os.makedirs(rdir, exist_ok=True)
        path = os.path.join(rdir, _safe(key) + '.json')
        json.dump({'property': ctx.pid, 'key': key, 'msg': v['msg'], 'case': v['case']}, open(path, 'w'), indent=1)
        print('VIOLATION property=%s replay=%s' % (ctx.pid, path))
        print('  class=%s count=%d: %s' % (key, v['count'], str(v['msg'])[:600]))
    for e in ctx.errors[:5]:
        print('HARNESS-ERROR: %s' % e)
    wall = time.time() - ctx.t0
    c = ctx.counters
    cov = {
        'evaluations': int(c.get('evaluations', 0)),
        'distinct_nontrivial': len(ctx.distinct),
        'rule': ctx.rule,
        'samples': ctx.samples[:MAX_SAMPLES],
        'states': int(c.get('states', 0)),
        'transitions': int(c.get('transitions', 0)),
        'traces_validated_against_impl': int(c.get('traces', 0)),
        'exhaustive': bool(ctx.exhaustive),
        'bounds': jsonable(ctx.bounds),
        'counters': {k: int(v) for k, v in sorted(c.items())},
        'known_findings_hit': {k: n for k, (f, n) in known.items()},
    }
    for k, v in ctx.notes.items():
        cov.setdefault(k, jsonable(v))
    ev = {
        'property_id': ctx.pid, 'tier': ctx.tier, 'seed': int(ctx.seed), 'level': 'model_checking',
        'coverage': cov, 'assumptions': ctx.assumptions, 'wall_s': round(wall, 2),
        'violations': len(new),
    }
    try:
        from . import build
        ev['repo'] = build.REPO
        ev['source_digest'] = build.source_digest()
    except Exception:
        pass
    if write_evidence:
        os.makedirs(os.path.join(VERIF, 'evidence'), exist_ok=True)
        json.dump(ev, open(os.path.join(VERIF, 'evidence', ctx.pid + '.json'), 'w'), indent=1)
    print('[%s %s seed=%d] evaluations=%d distinct_nontrivial=%d states=%d transitions=%d traces=%d '
          'violations=%d known=%d wall=%.1fs' % (
              ctx.pid, ctx.tier, ctx.seed, cov['evaluations'], cov['distinct_nontrivial'], cov['states'],
              cov['transitions'], cov['traces_validated_against_impl'], len(new), len(known), wall))
    if new:
        return 1        # a violation was shown (its VIOLATION line is printed); errors of the harness, if any, are printed as well
    if ctx.errors:
        return 2
    if not new and (cov['evaluations'] < 1 or cov['states'] < 1 or cov['transitions'] < 1 or cov['distinct_nontrivial'] < 2):
        print('HARNESS-ERROR: vacuous run (nothing explored)')
        return 2
    return 1 if new else 0
