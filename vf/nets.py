"""Finite-state reaction networks used by the E1 properties (C05, C06, C10, C11)."""


def ma(reactants, products, k, **kw):
    d = dict(reactants=list(reactants), products=list(products), kind='massaction', k=k)
    d.update(kw)
    return d


def hill(kind, reactants, products, k, K, n, s1, d=None):
    r = dict(reactants=list(reactants), products=list(products), kind=kind, k=k, K=K, n=n, s1=s1)
    if d is not None:
        r['d'] = d
    return r


def gen(reactants, products, rate):
    return dict(reactants=list(reactants), products=list(products), kind='general', rate=rate)


def spec(name, species, x0, reactions, params=None, rules=None):
    return dict(name=name, species=list(species), x0=dict(x0), reactions=reactions,
                params=dict(params or {}), rules=list(rules or []))


ID = lambda s: ('id', s)


def ssa_networks(n0, k1, k2):
    """every network is finite-state from the given initial counts (or horizon-bounded: N2)"""
    A, B, C, E = 'A', 'B', 'C', 'E'
    nets = [
        spec('N1_iso', [A, B], {A: n0, B: 0}, [ma([A], [B], k1), ma([B], [A], k2)]),
        spec('N2_birthdeath', [A], {A: n0 - 1}, [ma([], [A], k1), ma([A], [], k2)]),
        spec('N3_dimer', [A, B], {A: n0 + 1, B: 0}, [ma([A, A], [B], k1), ma([B], [A, A], k2)]),
        spec('N4_bind', [A, B, C], {A: n0, B: 2, C: 0}, [ma([A, B], [C], k1), ma([C], [A, B], k2)]),
        spec('N5_trimer', [A, B], {A: n0 + 2, B: 0}, [ma([A, A, A], [B], k1), ma([B], [A, A, A], k2)]),
        spec('N5b_A2B', [A, B, C], {A: n0, B: 3, C: 0}, [ma([A, B, B], [C], k1), ma([C], [A, B, B], k2)]),
        spec('N6_catalysis', [A, B, E], {A: n0, B: 0, E: 2}, [ma([A, E], [B, E], k1), ma([B], [A], k2)]),
        spec('N7_three_channels', [A, B, C, 'D'], {A: n0, B: 0, C: 0, 'D': 0},
             [ma([A], [B], k1), ma(['D'], [C], 5.0), ma([A], [C], k2), ma([B], [A], k1)]),
        spec('N9_cycle3', [A, B, C], {A: n0, B: 1, C: 0}, [ma([A], [B], k1), ma([B], [C], k2), ma([C], [A], 0.9)]),
        spec('N9b_five_channels', [A, B, C], {A: n0, B: 1, C: 0},
             [ma([A], [B], k1), ma([B], [C], k2), ma([C], [A], 0.9), ma([A, B], [C, C], 0.4), ma([C, C], [A, B], 0.3)]),
        spec('N8_hillpos', [A, B], {A: n0, B: 1},
             [hill('hillpositive', [A], [B], k1, 2.0, 2.0, B), ma([B], [A], k2)]),
        spec('N8_hillneg', [A, B], {A: n0, B: 0},
             [hill('hillnegative', [A], [B], k1, 2.0, 2.0, B), ma([B], [A], k2)]),
        spec('N8_prophillpos', [A, B, E], {A: n0, B: 1, E: 2},
             [hill('proportionalhillpositive', [A], [B], k1, 1.5, 1.0, B, E), ma([B], [A], k2)]),
        spec('N8_prophillneg', [A, B, E], {A: n0, B: 0, E: 1},
             [hill('proportionalhillnegative', [A], [B], k1, 1.5, 2.0, B, E), ma([B], [A], k2)]),
        spec('N8_general', [A, B], {A: n0, B: 0},
             [gen([A], [B], ('/', ('*', ('id', 'kg'), ('id', A)), ('+', ('num', 1), ('id', B)))),
              ma([B], [A], k2)], params={'kg': k1}),
    ]
    return nets


def big_networks():
    """beyond the small alphabets: counts of 50 and more, seven species / eight channels, a 10-channel birth-death ladder"""
    A, B, C, E = 'A', 'B', 'C', 'E'
    S = ['S0', 'S1', 'S2', 'S3', 'S4', 'S5', 'S6']
    return [
        spec('B1_iso_60', [A, B], {A: 60, B: 55}, [ma([A], [B], 1.5), ma([B], [A], 0.5)]),
        spec('B2_dimer_120', [A, B], {A: 120, B: 51}, [ma([A, A], [B], 0.01), ma([B], [A, A], 0.7)]),
        spec('B3_bind_200', [A, B, C], {A: 200, B: 75, C: 50}, [ma([A, B], [C], 0.002), ma([C], [A, B], 0.9), ma([A, B, B], [C, B], 1e-4)]),
        spec('B4_seven_species', S, dict(zip(S, [3, 2, 0, 1, 2, 0, 1])),
             [ma([S[0]], [S[1]], 1.5), ma([S[1], S[2]], [S[3]], 0.5), ma([S[3]], [S[1], S[2]], 0.7), ma([S[4], S[4]], [S[5]], 0.4),
              ma([S[5]], [S[4], S[4], S[6]], 1.1), ma([S[6]], [S[2]], 0.9), ma([S[1]], [S[0]], 0.6), ma([S[6], S[0]], [S[5]], 0.3)]),
        spec('B5_ten_channels', [A, B, C, E], {A: 2, B: 1, C: 1, E: 1},
             [ma([A], [B], 1.5), ma([B], [A], 0.5), ma([B], [C], 0.8), ma([C], [B], 0.4), ma([C], [E], 1.2), ma([E], [C], 0.3),
              ma([E], [A], 0.9), ma([A], [E], 0.2), ma([A, C], [B, E], 0.35), ma([B, E], [A, C], 0.45)]),
        spec('B6_hill_60', [A, B], {A: 60, B: 50}, [hill('hillpositive', [A], [B], 1.5, 40.0, 2.0, B), ma([B], [A], 0.05)]),
    ]


def scale_networks():
    """rates of very small and very large magnitude (the chemical master equation depends on k t only): (network, grid)"""
    A, B, C = 'A', 'B', 'C'
    slow = [float(i * 2 ** 35) for i in range(4)]          # 3.4e10 per step
    fast = [i * 2.0 ** -31 for i in range(4)]              # 4.7e-10 per step
    return [
        (spec('Z1_slow_1e-11', [A, B, C], {A: 2, B: 0, C: 0}, [ma([A], [B], 1e-11), ma([A], [C], 3e-12), ma([B], [A], 2e-12)]), slow),
        (spec('Z2_fast_1e9', [A, B, C], {A: 2, B: 0, C: 0}, [ma([A], [B], 1e9), ma([A], [C], 3e8), ma([B], [A], 2e8)]), fast),
        (spec('Z3_tiny_and_unit', [A, B, C], {A: 1, B: 1, C: 0}, [ma([A], [C], 1e-12), ma([B], [C], 1.5), ma([C], [B], 0.5)]), [0.0, 0.5, 1.0, 1.5]),
    ]


def reachable(sp, cap=200):
    """states reachable from x0 through net stoichiometry staying non-negative (finite nets)"""
    from .ref import crn
    S, Sd = crn.stoich(sp)
    species = sp['species']
    x0 = tuple(int(sp['x0'].get(s, 0)) for s in species)
    seen, frontier = {x0}, [x0]
    while frontier and len(seen) < cap:
        x = frontier.pop(0)
        xd = dict(zip(species, x))
        a = crn.rates(sp, xd, 'stoch', 1.0, 0.0, False, None, (S, Sd))
        for j, aj in enumerate(a):
            if aj > 0:
                y = tuple(x[i] + S[i][j] + Sd[i][j] for i in range(len(species)))
                if min(y) >= 0 and y not in seen and len(seen) < cap:
                    seen.add(y); frontier.append(y)
    return sorted(seen)
