"""Generate MANIFEST.json from the per-property registry (python -m vf.manifest)."""
import json, os, subprocess

VERIF = os.path.dirname(os.path.dirname(os.path.abspath(__file__)))

CHECKS = {}
NOT_APPLICABLE = {}


def reg(pid, engine, technique, text, note, design):
    CHECKS[pid] = dict(engine=engine, technique=technique, text=text, note=note, design=design)


reg('C01', 'E2',
    'bounded-exhaustive enumeration of reactant sequences x value alphabets on the real code vs closed-form reference',
    'Every reactant sequence of length 0..4 over three species (all orderings of all multisets), every Hill family and '
    'species role assignment, numeric and named parameters, two declaration orders, crossed with finite state/parameter/'
    'volume alphabets containing the values the code branches on, is evaluated in all four modes through the bare '
    'propensity and the plain and safe interface loops and compared with the documented closed form (rtol 1e-12). '
    'Exhaustive over the stated finite space; the continuous domains are represented by the alphabets only.',
    'Trusted: the closed forms in vf/ref/ratelaws.py (transcribed from the notebook), hooks H2/H3 being thin wrappers. '
    'Values outside the alphabets are not covered.', '4 C01')


def hook_commits():
    try:
        out = subprocess.run(['git', '-C', '/repo', 'log', '--format=%h %s'], stdout=subprocess.PIPE).stdout.decode()
        return [l.split()[0] for l in out.splitlines() if ' verif hook ' in ' ' + l]
    except Exception:
        return []


def main():
    for l in open(os.path.join(VERIF, 'properties.jsonl')):
        pid = json.loads(l)['id']
        if pid not in CHECKS and pid not in NOT_APPLICABLE:
            NOT_APPLICABLE[pid] = ('not claimed yet: the model-checking design for this property is in DESIGN.md section 4 '
                                   'but its check is not built; nothing is asserted about it')
    checks = []
    for pid in sorted(CHECKS):
        c = CHECKS[pid]
        checks.append({
            'property_id': pid,
            'quick_cmd': './check %s --tier quick' % pid,
            'thorough_cmd': './check %s --tier thorough' % pid,
            'evidence_file': '/verif/evidence/%s.json' % pid,
            'replay_cmd_template': './check %s --replay {path}' % pid,
            'engine': c['engine'],
            'level_claimed': {'category': 'model_checking', 'text': c['text'], 'design_ref': 'DESIGN.md section ' + c['design']},
            'level_note': c['note'],
            'technique': c['technique'],
        })
    man = {
        'version': 1,
        'setup_cmd': './check --setup',
        'hooks': {
            'guard': 'BIOSCRAPE_VERIF',
            'enable': 'hook code is always compiled in and inert; ./check exports BIOSCRAPE_VERIF=1 at run time and rebuilds '
                      '/repo in place (setup.py build_ext --inplace) whenever a source hash changed',
            'baseline_off_cmd': 'cd /repo && env -u BIOSCRAPE_VERIF /venv/bin/python -m pytest -ra -q -p no:cacheprovider '
                                '--timeout=900 --continue-on-collection-errors',
            'source_commits': hook_commits(),
            'add_only': True,
        },
        'engines': [
            {'name': 'E1', 'path': 'vf/explore.py', 'kind_free_text': 'stateless deviation-bounded exploration of the scripted '
             'uniform stream: a reference simulator enumerates every decision cell, every trace is replayed on the real simulator',
             'serves_properties': sorted(p for p in CHECKS if 'E1' in CHECKS[p]['engine'])},
            {'name': 'E2', 'path': 'vf/props', 'kind_free_text': 'bounded-exhaustive structural enumeration of inputs/programs '
             'executed on the real code against a plain-Python reference model',
             'serves_properties': sorted(p for p in CHECKS if 'E2' in CHECKS[p]['engine'])},
            {'name': 'E3', 'path': 'vf/bfs.py', 'kind_free_text': 'explicit-state breadth-first search over operation histories '
             'on the real objects with a shadow reference model',
             'serves_properties': sorted(p for p in CHECKS if 'E3' in CHECKS[p]['engine'])},
        ],
        'checks': checks,
        'not_applicable': [{'property_id': p, 'reason': r} for p, r in sorted(NOT_APPLICABLE.items())],
        'notes': 'All checks: ./check <ID> [--tier quick|thorough] [--replay FILE]; VERIF_TIER/VERIF_SEED honoured. '
                 'Known findings: known_findings.json (read-only at run time).',
    }
    json.dump(man, open(os.path.join(VERIF, 'MANIFEST.json'), 'w'), indent=1)
    print('MANIFEST.json: %d checks, %d not_applicable' % (len(checks), len(man['not_applicable'])))


if __name__ == '__main__':
    main()
