"""Generate MANIFEST.json from the per-property registry (python -m vf.manifest)."""
import json, os, subprocess

VERIF = os.path.dirname(os.path.dirname(os.path.abspath(__file__)))

CHECKS = {}
NOT_APPLICABLE = {}


def reg(pid, engine, technique, text, note, design):
    text = text + (' The families, routes and histories were extended after the rounds of seeded changes (larger networks and counts, '
                   'values of extreme magnitude, rejected edits interleaved with valid ones, re-used objects); DESIGN.md sections 4 and 4b '
                   'list them and the evidence file states what a run covered.')
    CHECKS[pid] = dict(engine=engine, technique=technique, text=text, note=note, design=design)


reg('C01', 'E2',
    'bounded-exhaustive enumeration of reactant sequences x value alphabets on the real code vs closed-form reference',
    'Every reactant sequence of length 0..4 over three species (all orderings of all multisets), every Hill family and '
    'species role assignment, numeric and named parameters, two declaration orders, crossed with finite state/parameter/'
    'volume alphabets containing the values the code branches on, is evaluated in all four modes through the bare '
    'propensity and the plain and safe interface loops and compared with the documented closed form (rtol 1e-12). '
    'Exhaustive over the stated finite space; the continuous domains are represented by the alphabets only.',
    'Trusted: the closed forms in vf/ref/ratelaws.py (transcribed from the notebook), hooks H2/H3 being thin wrappers. '
    'Values outside the alphabets are not covered.', '4 C01')


E1_NOTE = ('Trusted: the reference sampler in vf/ref/ssa.py (inverse-transform direct method with the recording rule stated there) and '
           'the assumption that uniforms map to waiting time / reaction as tau=-ln(u)/Lambda and cumulative buckets (pinned by the '
           'repository\'s frozen seeded trajectories); hook H1 owning all randomness (every sampler reaches the generator through '
           'uniform_rv). Nothing is claimed beyond the stated cost bound, horizon and alphabets.')

reg('C05', 'E1',
    'stateless cost-bounded exploration of the scripted random stream; every reference trace replayed on the real SSASimulator',
    'The random stream is the only nondeterminism: with hook H1 the simulator is a deterministic function of a finite choice '
    'sequence. For 15 small finite-state networks, six larger ones (counts 50-200, seven species, ten channels) and three with rates of magnitude 1e-11 / 1e9 (all propensity types, orders 0..3, repeated reactants, catalysis, a zero-propensity '
    'channel between live ones) x grids (uniform / non-uniform) x plain/safe interface, every execution of the reference '
    'direct-method sampler whose letters cost at most the bound (cells of each waiting-time draw relative to now / next grid time / '
    'horizon, middle and both edges of every live reaction bucket) is replayed on the implementation, comparing every row and the '
    'number of draws; the same from every reachable state on and between grid times. Conformance on both edges of every decision '
    'cell pins the implementation\'s cell boundaries, hence its law, to the reference CME sampler.', E1_NOTE, '4 C05')
reg('C06', 'E1',
    'cost-bounded exploration of the scripted stream plus exhaustive raw lattice scripts; invariants checked on the real output',
    'Every trajectory the real SSA / volume / delay simulators produce for the explored scripts (reference-led tree to cost 2 and all '
    '4^depth raw scripts, 18 networks x plain/safe) is checked, on the implementation\'s rows alone, for integrality, lattice '
    'membership of each row change (bounded integer search), exact conservation laws, non-negativity (mass action; all types in '
    'safe mode), absorption at zero propensity; plus a state-by-state scan of the safe interface\'s requirement table (H3).',
    'Trusted: stoichiometry by counting (vf/ref/crn.py), exact rational null-space computation. Invariants are mapping-independent; '
    'coverage is bounded by script depth and the network list.', '4 C06')
reg('C10', 'E1',
    'cost-bounded exploration of the scripted stream incl. delay-sampler variates; every trace replayed on DelaySSASimulator',
    'For 4 delay network shapes x fixed / Gaussian / Gamma delays (from 0 and 0.01 dt to beyond the horizon) x grids x plain/safe, '
    'every execution of the reference delay simulator within the cost bound (race between reaction, grid time and queue slot; '
    'Box-Muller and Marsaglia-Tsang variates realising negative, sub-step, lower/upper-slot, on-slot and beyond-horizon delays) is '
    'replayed on DelaySSASimulator directly and through py_simulate_model(delay=True): rows, draws consumed and the drained final '
    'queue must agree, and last row + queued deliveries must be x0 + complete firings (mapping-independent). Non-delay simulators '
    'are replayed against references applying both parts at once; the delay samplers are checked on a full uniform lattice '
    'pointwise and against scipy.stats CDFs.', E1_NOTE, '4 C10')
reg('C11', 'E1+E2',
    'cost-bounded exploration of the scripted stream on VolumeSSASimulator; growth/division invariants on the real output',
    'Constant volume: all C05 networks plus an order-0/order-3 mix at V in {0.25,0.5,2,4}, plain and safe, directly and through '
    'py_simulate_model(volume=V): every reference trace (volume-scaled closed-form propensities) within the cost bound is replayed. '
    'Growth and division: StochasticTimeThresholdVolume / StateDependentVolume x cycle times x scripted division noise x grid steps x '
    'models without reactions, with reactions, and going extinct mid-run: every trace replayed, and the real output checked against '
    'the growth law itself (positive, monotone, within one step, ends flagged at the first grid time of division).',
    E1_NOTE + ' A division that falls exactly on the last grid time is claimed as well (since fix 88517e5).', '4 C11')

reg('C09', 'E1+E2',
    'cost-bounded exploration of the scripted stream on rule-carrying models in every mode; rule invariants on the real rows',
    'Rule sets chained in dependency order (repeated / dt / start / scheduled-at-grid-time; assignment to parameters and species, additive, '
    'ODE) on models without reactions, with reactions and with rates that read rule-assigned values are run in deterministic, SSA, safe, '
    'volume, delay and lineage single-cell mode. For the four stochastic simulators every trace of the reference within the cost bound is '
    'replayed (conformance: rates are computed after the rules); on every real output the mapping-independent oracles are evaluated: fixed '
    'point of the repeated rules, dt counter +1 and ODE target +rate*dt per step from the second row on, scheduled rule leaves earlier rows '
    'identical to the same script without the rule. Lineage mode is driven by every raw script over a 4-letter alphabet.',
    E1_NOTE + ' Lineage single cell has no reference here (C19 has one); deterministic mode checks the fixed point only.', '4 C09')
reg('C20', 'E3',
    'explicit-state breadth-first search over operation histories on the real ArrayDelayQueue with a lock-step reference queue',
    'All histories up to the length bound over add (requested time before / on / 0.3 dt around every slot / beyond the horizon), '
    'read-and-advance, copy, clear_copy and binomial_partition with every coin sequence, for all 54 queue shapes and start times of the stated family plus larger ones (more reactions than slots, up to 9 slots), set_current_time on queues with pending entries, requested times 2^32 slots ahead and infinite, and partitions of slots holding up to 1000 occurrences, are '
    'executed on the real queue; after every transition the queue is drained and compared slot by slot (content and slot times) with a '
    'dict-based reference, so exactly-once delivery at the nearest slot, ordering, clamping, copy independence and partition conservation '
    'are decided for every reachable state within the bounds. States are merged only on (pending counts per relative slot, ring position).',
    'Trusted: the reference queue (vf/props/c20.py Ref), exact binary grid steps. Bounded by history length and pending-count cap.', '4 C20')

reg('C07', 'E3',
    'exhaustive enumeration of the option lattice of py_simulate_model on the real entry point',
    'The full product {stochastic} x {delay None/False/True} x {safe} x {volume: False, True, number, Volume object, initialised growing '
    'volume, dividing volume} x {data frame, result object} x {Model, pre-built interface} x 10 models x grid lengths is called on the '
    'real entry point; each outcome is either a complete, correctly labelled result (time axis, species columns in model order, volume '
    'column, first row = initial condition with rules) or an explicit option error. The lattice is finite and enumerated completely.',
    'Trusted: the oracle\'s notion of an explicit option error (ValueError/TypeError naming an option). Values inside the result are not '
    'judged here (C05/C10/C11 do that).', '4 C07')
reg('C15', 'E2+E3',
    'bounded-exhaustive enumeration of inference set-ups and evaluation histories on the real InferenceSetup vs closed-form posterior',
    'All cases of a grammar (3 linear models with matrix-exponential solutions x 1..4 trajectories x measured-species subsets and orders x '
    'norm orders x initial/parameter-condition shapes incl. differing key sets x time grids) are built on the real InferenceSetup; the data '
    'array alignment, cost(theta) against the closed form (incl. -inf outside the prior), every evaluation sequence up to the history bound '
    'against a fresh set-up, and every permutation of measurement columns and trajectories are checked; the stochastic cost is checked for '
    'alignment on a stream-independent model.',
    'Trusted: scipy.linalg.expm as the exact solution; 1e-5 relative tolerance for the ODE solver, 1e-9 for history/permutation equality.',
    '4 C15')
reg('C16', 'E2',
    'exhaustive enumeration of prior families x parameter and value alphabets on the real check_prior / cost_function vs scipy.stats',
    'Every built-in prior family x parameter alphabet x positive flag x value alphabet (interior, support edges +-{0,1e-9,1e-3}, negative, '
    '>1) and every 2..4-parameter combination from a 7-family menu is evaluated through PIDInterface.check_prior and '
    'InferenceSetup.cost_function and compared with scipy.stats log-densities (1e-10) or required to be rejected (non-finite / -inf).',
    'Trusted: scipy.stats densities as the meaning of the family names. Values whose density underflows a double are not compared.', '4 C16')

reg('C02', 'E2',
    'bounded-exhaustive enumeration of expression trees on every parser route vs a plain recursive evaluator',
    'Expression trees over the supported operator signature and an identifier pool with underscores, digits, the leading-underscore '
    'spelling and the sympy-clashing single letters are enumerated exhaustively at depth 0-1 (full leaf set, two species/parameter splits), '
    'depth 2 (reduced leaves) and by capped systematic nesting for depths 3-5; each is rendered minimally and fully parenthesised and run '
    'through parse_expression, a general propensity, parse_general_expression, an assignment rule and a growth law at 36 points, and '
    'compared with an independent evaluator on the finite domain; unknown names and unsupported functions must be rejected on every route.',
    'Trusted: vf/ref/expr.py (60-line evaluator). Depths 3-5 are a structured subset (exhaustive=false). Over-rejection is not a violation.',
    '4 C02')
reg('C03', 'E2',
    'bounded-exhaustive enumeration of reaction lists x species declaration orders on the real Model vs stoichiometry by counting',
    'Every single reaction with reactant and product sequences of length 0..4 over three species, every propensity x delay type x delayed '
    'side lists, ordered pairs/triples from a 12-reaction menu, each under all 9 declaration styles, is built on the real Model; the update '
    'arrays must equal products minus reactants counted with multiplicity and the derivative must equal (S+Sd).rate at 10 (state, time) '
    'points; every parameter position left without a value must make initialisation / interface construction / simulation fail.',
    'Trusted: counting stoichiometry and the closed-form rates (C01). A rate that names a not-yet-declared species is counted as rejected.',
    '4 C03')
reg('C04', 'E2',
    'exhaustive enumeration of a finite model family x time grids on the real integrator vs matrix exponential / DOP853',
    'Every affine network from <= 3 reactions of a 9-reaction menu x rate and initial alphabets (strides stated in the evidence) against the '
    'augmented matrix exponential, and 13 non-linear families (orders 2-4 with repeats, Hill, rational, explicitly time-dependent, delayed) '
    'against DOP853 at rtol 1e-12, on uniform, geometric and two-point grids through both entry points: first row exact, every row within '
    '1e-5*(1+|x|).',
    'This is exhaustive over the stated finite family only: "all positive parameters" is represented by the alphabets, which is weaker '
    'than the property. Trusted: scipy expm / solve_ivp.', '4 C04')
reg('C18', 'E2',
    'exhaustive enumeration of networks x states x parameters x schemes on the real analysis functions vs reference stencils and derivatives',
    'For 13 smooth networks x state alphabet^n x parameter vectors x every named parameter x the four difference schemes the reported '
    'Jacobian / sensitivity is compared (1) with the same stencil applied to the reference rate equations (1e-7) and (2) with the analytic '
    'derivative within the scheme\'s truncation bound; the parameter dictionary must be unchanged after every call, failing ones included.',
    'Trusted: reference rate equations (C01/C03); numerical differentiation of the reference for the analytic value and the bound. '
    'Alphabets stand for the open domains.', '4 C18')

reg('C12', 'E2',
    'bounded-exhaustive enumeration of a model family through the real SBML writer and reader, compared behaviourally',
    'Every model of the family (each propensity type x numeric/named parameters x reactant/product sequences x delay family x delayed side '
    'lists; 18 general rates; all rule sets of <= 2 rules x 5 frequency spellings; ordered reaction triples over names whose sort order '
    'differs from the declaration order) is written in deterministic and stochastic form and read back; species, parameters, both '
    'stoichiometric matrices, every rate form at 6 states (H2), delay class and scripted delay draw, rule behaviour at the firing conditions '
    'and write-twice identity are compared.',
    'Trusted: hook H2/H1 wrappers; rules are compared through their effect, not their text. ODE rules are outside the property.', '4 C12')
reg('C13', 'E2',
    'bounded-exhaustive enumeration of SBML documents generated with libsbml only, imported by the real code, vs the document semantics',
    'Documents built through libsbml calls (kinetic-law operator menu incl. nested powers in both associations x stoichiometries 1..3 x '
    'modifier; amount/concentration combinations; every ordered selection of reactions with shadowing / colliding / private local '
    'parameters; every sequence of <= 3 rules over assignment/rate x species/parameter plus a mixed menu) are imported; the imported '
    'model\'s derivative after its repeated rules must equal stoichiometry x kinetic law + rate rules as evaluated from the document\'s '
    'ASTs with local scoping, at 6 states, together with initial values, parameter values and the imported rule list.',
    'Trusted: libsbml and vf/ref/sbml_eval.py as the document semantics. Documents that bioscrape refuses are counted, not reported.', '4 C13')
reg('C14', 'E2',
    'bounded-exhaustive enumeration of models through the real SBML writer; kinetic laws re-read with libsbml and evaluated as plain SBML',
    'Every single-reaction model of the family is exported (deterministic and stochastic); with libsbml alone every identifier of every '
    'kinetic law must resolve inside the document and the law, evaluated as SBML mathematics at 8 states, must equal the model\'s own '
    'rate (stochastic form via H2); stoichiometry attributes must equal multiplicities. Six classes of failing input are listed as open '
    'known findings (Hill families: frozen tests pin the defective text; Heaviside / time symbol: export and import must change together).',
    'Trusted: libsbml reader, vf/ref/sbml_eval.py. Known findings are matched by exact class (family, export kind, failing identifier / '
    'recognised defective form); any other mismatch of the same family is still a violation.', '4 C14')

reg('C08', 'E3',
    'exhaustive enumeration of operation histories on the real Model with a shadow definition; differential oracle vs a freshly built model',
    'Every sequence up to the length bound over a 27-letter alphabet of edits (two of them rejected ones), initialisations, interface constructions, simulations in '
    'every mode and seedings is applied to a real Model; the state reached is compared, through seeded and scripted simulations in every '
    'mode, the deterministic trajectory, dictionaries and matrices, with a model built at once from the shadow definition; seeded '
    'repetition and model-unchanged-by-simulation are checked at every step. Histories are not merged because the hidden C-level vectors '
    'are what is under test.',
    'Trusted: the shadow definition kept by the harness. Bounded by history length (3 quick, 4 thorough, plus lengths 4-7 over sub-alphabets).', '4 C08')
reg('C17', 'E2+E3',
    'bounded-exhaustive enumeration of member types x copy/initialise/simulate/edit histories on real models, results and cell states',
    'One model per propensity / expression-node / delay / rule type and per lineage rule / event / splitter type is taken through every '
    'history up to the length bound that contains a pickle round trip or deep copy, and compared observationally (dictionaries, matrices, '
    'rate forms via H2, delays under a scripted stream, rules, seeded simulations in every mode, seeded and scripted lineages with their '
    'tree structure) with the same history without copies; independence is checked by editing either side; every result / cell-state / '
    'lineage class is pickled and deep-copied.',
    'Trusted: observation through the public API and hooks H1/H2. Interfaces are not part of the claim.', '4 C17')

reg('C19', 'E1',
    'exhaustive coin-sequence enumeration on the real splitters; cost-bounded exploration of the scripted stream on the lineage simulator',
    'Splitters: every coin sequence of every binomial / perfect-rounding draw is scripted for every splitter class x per-species mode x '
    'volume mode x noise x mothers in {0..4}^2; conservation, duplication, volume split and the exact product-Binomial(n, p) law (summed '
    'cell measures, p = observed volume fraction) are decided. Lineage: ten models covering every volume / division / death rule and event '
    'type, exhaustion and a reaction-free model, through py_SimulateSingleCell and py_SimulateCellLineage: every reference trace within the '
    'cost bound (waiting time vs grid, reaction / event bucket, splitter coins) is replayed and the real records are checked (positive '
    'volume and simulated state on every row, daughters born at the mother\'s last time from a valid partition, mutual links, tree shape).',
    E1_NOTE + ' Rules and events with noise terms are not explored; the lineage exploration is capped per configuration.', '4 C19')

def hook_commits():
    try:
        out = subprocess.run(['git', '-C', '/repo', 'log', '--format=%h %s'], stdout=subprocess.PIPE).stdout.decode()
        return [l.split()[0] for l in out.splitlines() if ' verif hook ' in ' ' + l]
    except Exception:
        return []


def main():
    for l in open(os.path.join(VERIF, 'properties.jsonl')):
        pid = json.loads(l)['id']
        if pid not in CHECKS and pid not in NOT_APPLICABLE:
            NOT_APPLICABLE[pid] = ('not claimed yet: the model-checking design for this property is in DESIGN.md section 4 '
                                   'but its check is not built; nothing is asserted about it')
    checks = []
    for pid in sorted(CHECKS):
        c = CHECKS[pid]
        checks.append({
            'property_id': pid,
            'quick_cmd': './check %s --tier quick' % pid,
            'thorough_cmd': './check %s --tier thorough' % pid,
            'evidence_file': '/verif/evidence/%s.json' % pid,
            'replay_cmd_template': './check %s --replay {path}' % pid,
            'engine': c['engine'],
            'level_claimed': {'category': 'model_checking', 'text': c['text'], 'design_ref': 'DESIGN.md section ' + c['design']},
            'level_note': c['note'],
            'technique': c['technique'],
        })
    man = {
        'version': 1,
        'setup_cmd': './check --setup',
        'hooks': {
            'guard': 'BIOSCRAPE_VERIF',
            'enable': 'hook code is always compiled in and inert; ./check exports BIOSCRAPE_VERIF=1 at run time and rebuilds '
                      '/repo in place (setup.py build_ext --inplace) whenever a source hash changed',
            'baseline_off_cmd': 'cd /repo && env -u BIOSCRAPE_VERIF /venv/bin/python -m pytest -ra -q -p no:cacheprovider '
                                '--timeout=900 --continue-on-collection-errors',
            'source_commits': hook_commits(),
            'add_only': True,
        },
        'engines': [
            {'name': 'E1', 'path': 'vf/explore.py', 'kind_free_text': 'stateless deviation-bounded exploration of the scripted '
             'uniform stream: a reference simulator enumerates every decision cell, every trace is replayed on the real simulator',
             'serves_properties': sorted(p for p in CHECKS if 'E1' in CHECKS[p]['engine'])},
            {'name': 'E2', 'path': 'vf/props', 'kind_free_text': 'bounded-exhaustive structural enumeration of inputs/programs '
             'executed on the real code against a plain-Python reference model',
             'serves_properties': sorted(p for p in CHECKS if 'E2' in CHECKS[p]['engine'])},
            {'name': 'E3', 'path': 'vf/bfs.py', 'kind_free_text': 'explicit-state breadth-first search over operation histories '
             'on the real objects with a shadow reference model',
             'serves_properties': sorted(p for p in CHECKS if 'E3' in CHECKS[p]['engine'])},
        ],
        'checks': checks,
        'not_applicable': [{'property_id': p, 'reason': r} for p, r in sorted(NOT_APPLICABLE.items())],
        'notes': 'All checks: ./check <ID> [--tier quick|thorough] [--replay FILE]; VERIF_TIER/VERIF_SEED honoured. '
                 'Known findings: known_findings.json (read-only at run time).',
    }
    json.dump(man, open(os.path.join(VERIF, 'MANIFEST.json'), 'w'), indent=1)
    print('MANIFEST.json: %d checks, %d not_applicable' % (len(checks), len(man['not_applicable'])))


if __name__ == '__main__':
    main()
