"""E1: stateless, cost-bounded exploration of the choice tree of a reference simulator
(DESIGN.md 3.3).  A reference simulator is a generator that yields Menu objects and receives
the chosen Letter; it returns its result (any object) on StopIteration."""


class Letter:
    __slots__ = ('name', 'u', 'cost', 'measure')

    def __init__(self, name, u, cost=0, measure=None):
        self.name, self.u, self.cost, self.measure = name, u, cost, measure

    def __repr__(self):
        return '%s(%r,c%d)' % (self.name, self.u, self.cost)


class Menu:
    __slots__ = ('kind', 'letters', 'info')

    def __init__(self, kind, letters, info=None):
        assert letters and letters[0].cost == 0, 'default letter must be free'
        self.kind, self.letters, self.info = kind, letters, info


class ReplayDivergence(Exception):
    pass


def run(factory, prefix):
    gen = factory()
    choices, costs, menus = [], [], []
    try:
        menu = next(gen)
        while True:
            i = len(choices)
            c = prefix[i] if i < len(prefix) else 0
            if c >= len(menu.letters):
                raise ReplayDivergence('choice %d out of range at point %d (menu %s has %d letters)' % (
                    c, i, menu.kind, len(menu.letters)))
            choices.append(c)
            costs.append(menu.letters[c].cost)
            menus.append(menu)
            menu = gen.send(menu.letters[c])
    except StopIteration as e:
        result = e.value
    if len(prefix) > len(choices):
        raise ReplayDivergence('prefix longer than the execution')
    return choices, costs, menus, result


def explore(factory, bound, on_trace, max_traces=None):
    """on_trace(choices, menus, result).  Returns (traces, capped).  Every execution with total
    letter cost <= bound is visited exactly once."""
    stack = [[]]
    n = 0
    while stack:
        prefix = stack.pop()
        choices, costs, menus, result = run(factory, prefix)
        n += 1
        on_trace(choices, menus, result)
        if max_traces is not None and n >= max_traces:
            return n, bool(stack)
        spent = sum(costs[:len(prefix)])
        for i in range(len(prefix), len(choices)):
            # choices[i] is the default (0) here; try every alternative that fits the budget
            for alt in range(1, len(menus[i].letters)):
                if spent + menus[i].letters[alt].cost <= bound:
                    stack.append(choices[:i] + [alt])
            spent += costs[i]
    return n, False
