"""Reference expression trees: my own tree type, a renderer to bioscrape syntax and a recursive
evaluator over plain floats (no sympy).  A tree is a tuple:
  ('num', 1.5) ('id', 'A') ('t',) ('vol',)
  ('+', a, b) ('-', a, b) ('*', a, b) ('/', a, b) ('^', a, b) ('neg', a)
  ('exp', a) ('log', a) ('abs', a) ('step', a) ('min', a, b, ...) ('max', a, b, ...)"""
import math


class Undefined(Exception):
    pass


def ev(tr, env, t=0.0, vol=1.0, track=None):
    """evaluate; env maps identifier -> float.  Raises Undefined outside the finite domain.
    track (list) collects |subterm| values and Heaviside arguments for the tolerance rule."""
    op = tr[0]
    if op == 'num':
        v = float(tr[1])
    elif op == 'id':
        v = float(env[tr[1]])
    elif op == 't':
        v = float(t)
    elif op == 'vol':
        v = float(vol)
    elif op in ('+', '-', '*', '/', '^'):
        a = ev(tr[1], env, t, vol, track)
        b = ev(tr[2], env, t, vol, track)
        if op == '+':
            v = a + b
        elif op == '-':
            v = a - b
        elif op == '*':
            v = a * b
        elif op == '/':
            if b == 0:
                raise Undefined('division by zero')
            v = a / b
        else:
            if a == 0 and b <= 0:
                raise Undefined('0 ** non-positive (0^0 is an indeterminate form, 0^negative a pole)')
            if a < 0 and b != int(b):
                raise Undefined('negative base, fractional exponent')
            try:
                v = a ** b
            except OverflowError:
                raise Undefined('overflow')
            if isinstance(v, complex):
                raise Undefined('complex power')
    elif op == 'neg':
        v = -ev(tr[1], env, t, vol, track)
    elif op == 'exp':
        a = ev(tr[1], env, t, vol, track)
        if a > 700:
            raise Undefined('overflow')
        v = math.exp(a)
    elif op == 'log':
        a = ev(tr[1], env, t, vol, track)
        if a <= 0:
            raise Undefined('log of non-positive')
        v = math.log(a)
    elif op == 'abs':
        v = abs(ev(tr[1], env, t, vol, track))
    elif op == 'step':
        a = ev(tr[1], env, t, vol, track)
        if track is not None:
            track.append(('step', a))
        v = 1.0 if a >= 0 else 0.0
    elif op in ('min', 'max'):
        vals = [ev(x, env, t, vol, track) for x in tr[1:]]
        v = min(vals) if op == 'min' else max(vals)
    else:
        raise ValueError('bad tree ' + repr(tr))
    if v != v or v in (float('inf'), float('-inf')):
        raise Undefined('non-finite')
    if track is not None:
        track.append(('abs', abs(v)))
    return v


_PREC = {'+': 1, '-': 1, '*': 2, '/': 2, 'neg': 3, '^': 4}


def fmt_num(x):
    if isinstance(x, str):
        return x
    if float(x) == int(x) and abs(x) < 1e15:
        return str(int(x))
    return repr(float(x))


def render(tr, full=False, step_name='Heaviside'):
    """bioscrape expression syntax; full=True parenthesises every compound subterm"""
    op = tr[0]
    if op == 'num':
        s = fmt_num(tr[1])
        return '(' + s + ')' if s.startswith('-') else s
    if op == 'id':
        return tr[1]
    if op == 't':
        return 't'
    if op == 'vol':
        return 'volume'
    if op in ('exp', 'log', 'abs'):
        return '%s(%s)' % (op, render(tr[1], full, step_name))
    if op == 'step':
        return '%s(%s)' % (step_name, render(tr[1], full, step_name))
    if op in ('min', 'max'):
        return '%s(%s)' % (op, ', '.join(render(x, full, step_name) for x in tr[1:]))

    def sub(x, need, right=False):
        s = render(x, full, step_name)
        if x[0] in ('num', 'id', 't', 'vol', 'exp', 'log', 'abs', 'step', 'min', 'max'):
            return s
        p = _PREC[x[0]]
        if full or p < need or (p == need and right):
            return '(' + s + ')'
        return s
    if op == 'neg':
        return '-' + sub(tr[1], 3, True)
    if op == '^':
        # power: always parenthesise compound operands (associativity of ^ is not something to rely on)
        a, b = tr[1], tr[2]
        sa = render(a, full, step_name)
        sb = render(b, full, step_name)
        if a[0] in _PREC:
            sa = '(' + sa + ')'
        if b[0] in _PREC:
            sb = '(' + sb + ')'
        return sa + '^' + sb
    p = _PREC[op]
    left = sub(tr[1], p, False)
    right = sub(tr[2], p, op in ('-', '/'))
    return '%s %s %s' % (left, op, right) if op in '+-' else '%s%s%s' % (left, op, right)


def idents(tr, acc=None):
    acc = set() if acc is None else acc
    if tr[0] == 'id':
        acc.add(tr[1])
    for x in tr[1:]:
        if isinstance(x, tuple):
            idents(x, acc)
    return acc


def depth(tr):
    ds = [depth(x) for x in tr[1:] if isinstance(x, tuple)]
    return 1 + max(ds) if ds else 0


def totuple(o):
    """JSON (lists) back to tuples"""
    if isinstance(o, (list, tuple)):
        return tuple(totuple(x) for x in o)
    return o
