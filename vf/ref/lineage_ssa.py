"""Reference for the lineage single-cell SSA and the cell-lineage loop (choice-point generators).

A lineage spec extends the network spec with
  volume_rules:   [{type: linear|multiplicative|assignment|ode, growth_rate | equation(tree)}]
  division_rules: [{type: time|volume|deltav|general, threshold | equation(tree)}]
  death_rules:    [{type: species|param|general, specie|param, threshold, comp | equation(tree)}]
  events:         [{kind: volume|division|death, type, params, prop: <reaction-like rate spec>}]   (order: volume, division, death)
  splitter:       {modes: {species: binomial|perfect|duplicate}, volume: binomial|perfect|duplicate, noise}
Recording rule as in vf/ref/ssa.py; volume rules are applied at every grid time after the row is taken; death and
division rules are checked at the top of every step; the cell's last row is its state at division / death, reported
at the next grid time."""
import math
from ..explore import Letter, Menu
from . import crn, rules as RR, expr as EX
from .ssa import Net, wait_menu, rxn_menu


def ev(tree, x, P, t, V):
    env = dict(P); env.update(x)
    return EX.ev(EX.totuple(tree), env, t, V)


def apply_volume_rules(spec, x, P, V, t, dt):
    for r in spec.get('volume_rules', []):
        if r['type'] == 'linear':
            V = V + P[r['growth_rate']] * dt if isinstance(r['growth_rate'], str) else V + r['growth_rate'] * dt
        elif r['type'] == 'multiplicative':
            g = P[r['growth_rate']] if isinstance(r['growth_rate'], str) else r['growth_rate']
            V = V + V * g * dt
        elif r['type'] == 'assignment':
            V = ev(r['equation'], x, P, t, V)
        elif r['type'] == 'ode':
            V = V + ev(r['equation'], x, P, t, V) * dt
    return V


def first_true(rules, pred):
    for i, r in enumerate(rules):
        if pred(r):
            return i
    return -1


def division_rule_true(r, x, P, t, V, t0, V0):
    if r['type'] == 'time':
        return t - t0 >= r['threshold'] - 1e-9
    if r['type'] == 'volume':
        return V >= r['threshold'] - 1e-9
    if r['type'] == 'deltav':
        return V - V0 >= r['threshold'] - 1e-9
    return ev(r['equation'], x, P, t, V) > 0


def death_rule_true(r, x, P, t, V):
    if r['type'] == 'general':
        return ev(r['equation'], x, P, t, V) > 0
    val = x[r['specie']] if r['type'] == 'species' else P[r['param']]
    thr = r['threshold']
    if r['comp'] == '=':
        return thr - 1e-9 < val < thr + 1e-9
    if r['comp'] == '>':
        return val > thr - 1e-9
    return val < thr + 1e-9


def event_rate(spec, e, x, P, t, V):
    return crn.rate(spec, e['prop'], x, 'stochvol', V, t, P)


def single_cell(net, times, cell, rule_dt, fire_cost=1, edge_cost=1):
    """cell: dict(state, V, V0, t, t0).  Returns us, rows, vols, times, divided, dead, final cell."""
    spec = net.spec
    x = dict(cell['state'])
    P = dict(spec.get('params', {}))
    V, V0, t, t0c = cell['V'], cell['V0'], cell['t'], cell['t0']
    N = len(times)
    delta = times[1] - times[0]
    nq = times[1]
    final = times[-1]
    events = spec.get('events', [])
    us, rows, vols, visited = [], [], [], []
    idx, rule_step = 0, True
    divided = dead = -1
    ndr = len(spec.get('division_rules', []))
    nde = len(spec.get('death_rules', []))
    while idx < N:
        RR.apply(net.rules, x, P, t, rule_dt, rule_step, V)
        dead = first_true(spec.get('death_rules', []), lambda r: death_rule_true(r, x, P, t, V))
        divided = first_true(spec.get('division_rules', []), lambda r: division_rule_true(r, x, P, t, V, t0c, V0))
        if dead >= 0 and divided >= 0:
            divided = -1
            break
        if dead >= 0 or divided >= 0:
            break
        a = net.props(x, P, t, V) + [event_rate(spec, e, x, P, t, V) for e in events]
        Lam = sum(a)
        visited.append((tuple(net.row(x)), idx))
        last = not (nq < final)
        if Lam == 0:
            proposed = final + delta
            rule_step = True
        else:
            B = (final - 1e-7) if last else nq
            if B <= t:
                lt = yield Menu('wait', [Letter('any', 0.5, 0)], dict(t=t, Lam=Lam))
            else:
                lt = yield wait_menu(t, Lam, [B], delta, final, fire_cost)
            us.append(lt.u)
            proposed = t + (-math.log(lt.u) / Lam)
            rule_step = False
        if nq < proposed and nq < final:
            t = nq
            nq += delta
            queued = True
            rule_step = True
        elif proposed > final - 1e-7:
            t = final
            queued = True
            rule_step = True
        else:
            t = proposed
            queued = False
        while idx < N and times[idx] <= t:
            rows.append(net.row(x)); vols.append(V); idx += 1
        if queued:
            V = apply_volume_rules(spec, x, P, V, t, delta)
            continue
        menu, which = rxn_menu(a, Lam, edge_cost)
        lr = yield menu
        us.append(lr.u)
        j = which[lr.name]
        if j < net.nr:
            net.fire(x, j)
            continue
        e = events[j - net.nr]
        if e['kind'] == 'volume':
            if e['type'] == 'linear':
                V = V + e['growth_rate']
            elif e['type'] == 'multiplicative':
                V = V * (1 + e['growth_rate'])
            else:
                V = ev(e['equation'], x, P, t, V)
            continue
        nv = sum(1 for q in events if q['kind'] == 'volume')
        ndv = sum(1 for q in events if q['kind'] == 'division')
        if e['kind'] == 'division':
            divided = (j - net.nr - nv) + ndr
        else:
            dead = (j - net.nr - nv - ndv) + nde
        break
    if divided >= 0 or dead >= 0:
        if idx < N and t <= times[idx]:
            rows.append(net.row(x)); vols.append(V); idx += 1
    out_times = list(times[:len(rows)])
    final_cell = dict(state=dict(zip(net.species, rows[-1])), V=vols[-1], V0=vols[0], t=out_times[-1], t0=times[0],
                      divided=divided, dead=dead)
    return dict(us=us, rows=rows, vols=vols, times=out_times, divided=divided, dead=dead, visited=visited, final=final_cell)


def splitter_for(spec, code):
    """the splitter attached to the division rule (code < number of rules) or division event that divided the cell"""
    rules = spec.get('division_rules', [])
    if code < len(rules):
        return rules[code].get('splitter', spec['splitter'])
    devs = [e for e in spec.get('events', []) if e['kind'] == 'division']
    return devs[code - len(rules)].get('splitter', spec['splitter'])


def split_menu_and_apply(spec, cell, species_order):
    """LineageVolumeSplitter as a choice-point generator: yields menus, returns (daughter1, daughter2, uniforms)"""
    sp = splitter_for(spec, cell['divided'])
    us = []
    Vm = cell['V']
    if sp.get('volume', 'binomial') == 'binomial':
        lt = yield Menu('split-volume', [Letter('vn_lo', 0.1, 0), Letter('vn_hi', 0.9, 1)])
        us.append(lt.u)
        p = 0.5 - lt.u * sp.get('noise', 0.0) / 2.0
        q = 1 - p
    elif sp['volume'] == 'duplicate':
        p = q = 1.0
    else:
        p = q = 0.5
    d, e = dict(cell['state']), dict(cell['state'])
    modes = {s: sp['modes'].get(s, sp.get('default', 'binomial')) for s in species_order}
    for s in species_order:
        if modes[s] != 'perfect':
            continue
        dv = p * d[s]
        amount = int(dv)
        if dv - amount <= 1e-8 and amount >= 0:
            d[s] = float(amount)
        else:
            lt = yield Menu('split-perfect', [Letter('down', (1 + p) / 2, 0), Letter('up', p / 2, 1)])
            us.append(lt.u)
            d[s] = float(int(dv) + 1) if lt.u <= p else float(int(dv))
        e[s] -= d[s]
    for s in species_order:
        if modes[s] != 'binomial':
            continue
        n = int(d[s] + 0.5)
        k = 0
        for _ in range(n):
            if p >= 1.0:
                lt = yield Menu('split-coin', [Letter('in', 0.5, 0)])
            else:
                lt = yield Menu('split-coin', [Letter('out', (1 + p) / 2, 0), Letter('in', p / 2, 1)])
            us.append(lt.u)
            if lt.u < p:
                k += 1
        d[s] = float(k)
        e[s] -= d[s]
    t = cell['t']
    return (dict(state=d, V=Vm * p, V0=Vm * p, t=t, t0=t), dict(state=e, V=Vm * q, V0=Vm * q, t=t, t0=t), us)


def cell_lineage(net, times, cell0, rule_dt, fire_cost=1, edge_cost=1, max_cells=15):
    """SimulateCellLineage: returns the list of schnitzes (rows, vols, times, parent, daughters) and all uniforms in order"""
    us = []
    sch = []
    r = yield from single_cell(net, times, cell0, rule_dt, fire_cost, edge_cost)
    us += r['us']
    sch.append(dict(rows=r['rows'], vols=r['vols'], times=r['times'], parent=None, daughters=None, final=r['final']))
    queue = [0]
    qi = 0
    final = times[-1]
    while qi < len(queue) and len(sch) < max_cells:
        i = queue[qi]; qi += 1
        fc = sch[i]['final']
        if fc['t'] >= final - 1e-9 or fc['dead'] >= 0 or fc['divided'] < 0:
            continue
        d1, d2, su = yield from split_menu_and_apply(net.spec, fc, net.species)
        us += su
        sub = [tt for tt in times if tt >= fc['t']]
        kids = []
        for dcell in (d1, d2):
            if len(sub) < 2:
                # a single remaining time point: the simulator returns the cell as it is
                rr = dict(us=[], rows=[net.row(dcell['state'])], vols=[dcell['V']], times=list(sub), divided=-1, dead=-1,
                          final=dict(dcell, divided=-1, dead=-1))
            else:
                rr = yield from single_cell(net, sub, dcell, rule_dt, fire_cost, edge_cost)
            us += rr['us']
            sch.append(dict(rows=rr['rows'], vols=rr['vols'], times=rr['times'], parent=i, daughters=None, final=rr['final']))
            kids.append(len(sch) - 1)
            if rr['final']['t'] < final + 1e-12:
                queue.append(len(sch) - 1)
        sch[i]['daughters'] = kids
    return dict(us=us, schnitzes=sch)
