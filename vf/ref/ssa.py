"""Reference stochastic simulators (direct method, inverse-transform sampling) written as
choice-point generators for vf/explore.py.

Recording rule (all simulators): the row reported for grid time T is the state just before the
first event that happens after T; events that fall exactly on T (queue deliveries, volume steps)
happen after the row is taken.  Waiting times restart at every boundary (grid time, queue slot,
volume step): exact for time-independent propensities because the exponential is memoryless.

A trace result is a dict: us (the uniforms consumed, in order), rows, times, plus per-simulator extras."""
import math
from ..explore import Letter, Menu
from . import crn, rules as RR

FAR = 600.0


class Net:
    def __init__(self, spec, mode='stoch', safe=False):
        self.spec = spec
        self.species = list(spec['species'])
        self.S, self.Sd = crn.stoich(spec)
        self.mode = mode
        self.safe = safe
        self.rules = spec.get('rules', [])
        self.nr = len(spec['reactions'])

    def x0(self):
        return {s: float(self.spec['x0'].get(s, 0)) for s in self.species}

    def props(self, x, P, t, V=1.0):
        return crn.rates(self.spec, x, self.mode, V, t, self.safe, P, (self.S, self.Sd))

    def fire(self, x, j, immediate=True, delayed=True):
        for i, s in enumerate(self.species):
            if immediate:
                x[s] += self.S[i][j]
            if delayed:
                x[s] += self.Sd[i][j]

    def row(self, x):
        return [x[s] for s in self.species]


def wait_menu(t, Lam, bounds, step, tend, fire_cost=1, extra=()):
    """letters for a waiting-time draw at time t with total rate Lam.
    bounds: sorted distinct boundary times > t that the simulator distinguishes (nearest first)."""
    B = bounds[0]
    gap = B - t
    L = []

    def add(name, tau, cost):
        tau = min(tau, FAR / Lam)
        u = math.exp(-Lam * tau)
        if 0.0 < u < 1.0:
            L.append(Letter(name, u, cost))
    add('cross', gap + 1e-6 * step, 0)
    if gap >= 1e-4 * step:
        add('early', gap * 1e-3, fire_cost)
        add('mid', gap * 0.5, fire_cost)
        add('late', gap * (1 - 1e-6), fire_cost)
    for k, B2 in enumerate(bounds[1:3]):
        add('before%d' % (k + 2), (B2 - t) - 1e-6 * step, 1)
        add('after%d' % (k + 2), (B2 - t) + 1e-6 * step, 1)
    add('far', 10.0 * (tend - t) + 10.0, 1)
    for name, tau, cost in extra:
        add(name, tau, cost)
    return Menu('wait', L, dict(t=t, Lam=Lam))


def rxn_menu(a, Lam, edge_cost=1):
    L, E = [], []
    c = 0.0
    for j, aj in enumerate(a):
        if aj > 0:
            m = min(1e-9 * Lam, aj / 4.0)
            L.append((Letter('r%d' % j, (c + aj / 2.0) / Lam, 0), j))
            E.append((Letter('r%dlo' % j, (c + m) / Lam, edge_cost), j))
            E.append((Letter('r%dhi' % j, (c + aj - m) / Lam, edge_cost), j))
        c += aj
    pairs = L + E
    return Menu('rxn', [p[0] for p in pairs], dict(a=list(a))), {p[0].name: p[1] for p in pairs}


def ssa(net, times, dt=None, t0=0.0, fire_cost=1, edge_cost=1, x0=None):
    """plain SSA (SSASimulator): no queue; delayed parts are applied at the firing time"""
    x = dict(x0) if x0 is not None else net.x0()
    P = dict(net.spec.get('params', {}))
    dt = dt if dt is not None else 0.01
    step = min([b - a for a, b in zip(times, times[1:])] + [dt]) if len(times) > 1 else dt
    us, rows, visited = [], [], []
    t, idx, rule_step = t0, 0, True
    N = len(times)
    while idx < N:
        RR.apply(net.rules, x, P, t, dt, rule_step)
        a = net.props(x, P, t)
        Lam = sum(a)
        visited.append((tuple(net.row(x)), idx))
        T = times[idx]
        if Lam == 0 or T <= t:
            # nothing can happen before T (or T is now): report and move on
            if Lam > 0:
                # the implementation still draws a waiting time; any value crosses T <= t
                lt = yield Menu('wait', [Letter('any', 0.5, 0)], dict(t=t, Lam=Lam))
                us.append(lt.u)
            t = max(t, T)
            while idx < N and times[idx] <= t:
                rows.append(net.row(x)); idx += 1
            rule_step = True
            continue
        lt = yield wait_menu(t, Lam, [T], step, times[-1], fire_cost)
        us.append(lt.u)
        tau = -math.log(lt.u) / Lam
        if t + tau > T:
            t = T
            while idx < N and times[idx] <= t:
                rows.append(net.row(x)); idx += 1
            rule_step = True
            continue
        t = t + tau
        rule_step = False
        menu, which = rxn_menu(a, Lam, edge_cost)
        lr = yield menu
        us.append(lr.u)
        net.fire(x, which[lr.name])
    return dict(us=us, rows=rows, times=list(times), visited=visited)


# ---------------------------------------------------------------------------------------------
# delay samplers (reference formulas; the uniforms come from the explorer's letters)

def normal_from(u, v, mean, std):
    return mean + std * math.sqrt(-2.0 * math.log(u)) * math.cos(2.0 * math.pi * v)


def bm_pair(z):
    """(u, v) such that sqrt(-2 ln u) cos(2 pi v) == z"""
    if z >= 0:
        v, cosv = 0.1, math.cos(0.2 * math.pi)
    else:
        v, cosv = 0.4, math.cos(0.8 * math.pi)
    R = max(abs(z / cosv), 1e-3)
    if abs(z) < 1e-12:
        v, R = 0.25, 1.0     # cos = 0 -> z = 0 up to 1e-16
    return math.exp(-R * R / 2.0), v


def gamma_from(draws, k, theta):
    """Marsaglia-Tsang; draws is an iterator of uniforms; returns (value, uniforms used)"""
    d = k - 1.0 / 3.0
    c = 1.0 / math.sqrt(9.0 * d)
    used = 0
    while True:
        u, v_, U = next(draws), next(draws), next(draws)
        used += 3
        x = normal_from(u, v_, 0.0, 1.0)
        v = (1.0 + c * x) ** 3
        if v > 0 and math.log(U) < 0.5 * x * x + d - d * v + d * math.log(v):
            return d * v * theta, used


def delay_menu(dspec, P, t, t0, qdt, ncols, next_slot):
    """letters (tuples of uniforms) for the delay of one firing at time t"""
    def val(q):
        return float(P[q]) if isinstance(q, str) else float(q)
    typ = dspec['type']
    if typ == 'fixed':
        return None
    horizon = t0 + (next_slot + ncols - 1) * qdt
    base = t0 + next_slot * qdt            # earliest pending slot
    targets = [('neg', -0.5 * qdt, 0), ('tiny', 0.01 * qdt, 1),
               ('slot_lo', (base - t) + qdt - 0.3 * qdt, 0), ('slot_hi', (base - t) + qdt + 0.3 * qdt, 1),
               ('on_slot', (base - t) + 2 * qdt, 1), ('beyond1', (horizon - t) + 0.8 * qdt, 1), ('beyond', (horizon - t) + 2.3 * qdt, 1)]
    L = []
    if typ == 'gaussian':
        mean, std = val(dspec['mean']), val(dspec['std'])
        for name, dly, cost in targets:
            u, v = bm_pair((dly - mean) / std)
            if 0 < u < 1:
                L.append(Letter('d_' + name, (u, v), cost))
        L.sort(key=lambda l: l.cost)
        return Menu('delay', L, dict(type=typ))
    if typ == 'gamma':
        k, theta = val(dspec['k']), val(dspec['theta'])
        d = k - 1.0 / 3.0
        c = 1.0 / math.sqrt(9.0 * d)
        for name, x, cost in (('x0', 0.0, 0), ('xneg', -1.0, 1), ('xpos', 1.5, 1)):
            u, v = bm_pair(x)
            L.append(Letter('g_' + name, (u, v, 0.01), cost))          # ln U very negative: accept
        u, v = bm_pair(-(1.0 / c) - 0.5)                                   # v <= 0: reject, then accept
        u2, v2 = bm_pair(0.5)
        L.append(Letter('g_rej_v', (u, v, 0.01, u2, v2, 0.01), 1))
        u, v = bm_pair(2.5)                                                # squeeze fails for U near 1
        L.append(Letter('g_rej_U', (u, v, 1.0 - 1e-12, u2, v2, 0.01), 1))
        return Menu('delay', L, dict(type=typ))
    raise ValueError(typ)


def sample_delay(dspec, P, letter):
    def val(q):
        return float(P[q]) if isinstance(q, str) else float(q)
    typ = dspec['type']
    if typ == 'fixed':
        return val(dspec['delay']), []
    if typ == 'gaussian':
        u, v = letter.u
        return normal_from(u, v, val(dspec['mean']), val(dspec['std'])), [u, v]
    if typ == 'gamma':
        it = iter(letter.u)
        g, used = gamma_from(it, val(dspec['k']), val(dspec['theta']))
        return g, list(letter.u[:used])
    raise ValueError(typ)


class RefQueue:
    """pending deliveries keyed by absolute slot number n (slot time = t0 + n*qdt, n >= 1)"""

    def __init__(self, t0, qdt, ncols):
        self.t0, self.qdt, self.ncols = t0, qdt, ncols
        self.next_slot = 1
        self.pending = {}

    def next_time(self):
        return self.t0 + self.next_slot * self.qdt

    def add(self, time, rxn):
        n = int(math.floor((time - self.t0) / self.qdt + 0.5))
        n = max(self.next_slot, min(n, self.next_slot + self.ncols - 1))
        self.pending.setdefault(n, {})
        self.pending[n][rxn] = self.pending[n].get(rxn, 0) + 1

    def pop(self):
        d = self.pending.pop(self.next_slot, {})
        self.next_slot += 1
        return d

    def drained(self, nr):
        """what remains, as a list over the next ncols slots of per-reaction counts"""
        out = []
        for n in range(self.next_slot, self.next_slot + self.ncols):
            d = self.pending.get(n, {})
            out.append([float(d.get(j, 0)) for j in range(nr)])
        return out


def delay_ssa(net, times, qdt, ncols, dt=None, t0=0.0, fire_cost=1, edge_cost=1, x0=None):
    """DelaySSASimulator: immediate part at the firing time; delayed part once, at the queue slot
    nearest firing time + delay (non-positive delay: both parts at once)."""
    x = dict(x0) if x0 is not None else net.x0()
    P = dict(net.spec.get('params', {}))
    dt = dt if dt is not None else 0.01
    step = min([b - a for a, b in zip(times, times[1:])] + [qdt])
    q = RefQueue(t0, qdt, ncols)
    us, rows, visited, fired = [], [], [], []
    t, idx, rule_step = t0, 0, True
    N = len(times)
    while idx < N:
        RR.apply(net.rules, x, P, t, dt, rule_step)
        a = net.props(x, P, t)
        Lam = sum(a)
        visited.append((tuple(net.row(x)), idx, tuple(sorted((n - q.next_slot, tuple(sorted(d.items()))) for n, d in q.pending.items()))))
        T, Q = times[idx], q.next_time()
        fire = False
        if Lam == 0:
            proposed = max(t, T)
        elif T <= t or Q <= t:
            lt = yield Menu('wait', [Letter('any', 0.5, 0)], dict(t=t, Lam=Lam))
            us.append(lt.u)
            proposed = t + (-math.log(lt.u) / Lam)
            fire = proposed <= T
            if not fire:
                proposed = max(t, T)
        else:
            lt = yield wait_menu(t, Lam, sorted({T, Q}), step, times[-1], fire_cost)
            us.append(lt.u)
            proposed = t + (-math.log(lt.u) / Lam)
            fire = proposed <= T
            if not fire:
                proposed = T
        if Q < proposed:
            t = Q
            rule_step = False
            for j, cnt in q.pop().items():
                for _ in range(cnt):
                    net.fire(x, j, immediate=False, delayed=True)
            continue
        t = proposed
        while idx < N and times[idx] <= t:
            rows.append(net.row(x)); idx += 1
        if not fire:
            rule_step = True
            continue
        rule_step = False
        menu, which = rxn_menu(a, Lam, edge_cost)
        lr = yield menu
        us.append(lr.u)
        j = which[lr.name]
        dspec = net.spec['reactions'][j].get('delay')
        delay = 0.0
        if dspec:
            dm = delay_menu(dspec, P, t, t0, qdt, ncols, q.next_slot)
            ld = (yield dm) if dm is not None else None
            delay, used = sample_delay(dspec, P, ld)
            us.extend(used)
        fired.append(j)
        net.fire(x, j, immediate=True, delayed=False)
        if delay > 0.0:
            q.add(t + delay, j)
        else:
            net.fire(x, j, immediate=False, delayed=True)
    return dict(us=us, rows=rows, times=list(times), visited=visited, fired=fired,
                queue=q.drained(net.nr), queue_next_time=q.next_time())


def volume_ssa(net, times, vdt, volume, t0=0.0, fire_cost=1, edge_cost=1, x0=None):
    """VolumeSSASimulator.  volume: dict(type='const', V=..) | dict(type='growth', V0, rate, division_time)
    | dict(type='state', V0, rate_tree, division_volume).  The volume is stepped every vdt from t0; the
    run stops at the first step at which the volume model reports division."""
    x = dict(x0) if x0 is not None else net.x0()
    P = dict(net.spec.get('params', {}))
    step = min([b - a for a, b in zip(times, times[1:])] + [vdt])
    us, rows, vols, visited = [], [], [], []
    V = float(volume.get('V', volume.get('V0', 1.0)))
    t, idx, rule_step, nq, divided = t0, 0, True, 1, False
    N = len(times)
    from . import expr as EX
    while idx < N:
        RR.apply(net.rules, x, P, t, vdt, rule_step, V)
        a = net.props(x, P, t, V)
        Lam = sum(a)
        visited.append((tuple(net.row(x)), idx))
        T, Q = times[idx], t0 + nq * vdt
        fire = False
        if Lam == 0:
            proposed = times[-1] + vdt       # nothing can fire: only volume steps happen
        elif Q <= t or T <= t:
            lt = yield Menu('wait', [Letter('any', 0.5, 0)], dict(t=t, Lam=Lam))
            us.append(lt.u)
            proposed = t + (-math.log(lt.u) / Lam)
            fire = True
        else:
            # the volume simulator does not clip the proposed time at the grid time: an event beyond
            # T is taken (after the rows up to it are reported) unless a volume step comes first
            bounds = sorted({b for b in (T, Q) if b > t})
            lt = yield wait_menu(t, Lam, bounds, step, times[-1], fire_cost)
            us.append(lt.u)
            proposed = t + (-math.log(lt.u) / Lam)
            fire = True
        if Q < proposed:
            t = Q
            nq += 1
            fire = False
            rule_step = True
            while idx < N and times[idx] <= t:
                rows.append(net.row(x)); vols.append(V); idx += 1
            # volume step
            if volume['type'] == 'growth':
                V = V + (math.exp(volume['rate'] * vdt) - 1.0) * V
                if volume['division_time'] > t - vdt and volume['division_time'] <= t:
                    divided = True
            elif volume['type'] == 'state':
                env = dict(P); env.update(x)
                gr = EX.ev(EX.totuple(volume['rate_tree']), env, t, 1.0)
                V = V + (math.exp(gr * vdt) - 1.0) * V
                if V > volume['division_volume']:
                    divided = True
            if divided:
                break
            continue
        t = proposed
        rule_step = False      # dt rules fire once per volume step: only a volume step sets rule_step
        while idx < N and times[idx] <= t:
            rows.append(net.row(x)); vols.append(V); idx += 1
        if not fire:
            continue
        menu, which = rxn_menu(a, Lam, edge_cost)
        lr = yield menu
        us.append(lr.u)
        net.fire(x, which[lr.name])
    return dict(us=us, rows=rows, vols=vols, times=list(times[:len(rows)]), visited=visited, divided=divided)


def delay_volume_ssa(net, times, vdt, qdt, ncols, volume, t0=0.0, fire_cost=1, edge_cost=1, x0=None):
    """DelayVolumeSSASimulator: reactions (volume-scaled rates, not clipped at grid times), volume steps every vdt from t0
    and queue slots every qdt from the queue's own origin 0; a queued delivery due at the same instant as a volume step
    comes first; rows are taken before either."""
    x = dict(x0) if x0 is not None else net.x0()
    P = dict(net.spec.get('params', {}))
    step = min([b - a for a, b in zip(times, times[1:])] + [vdt, qdt])
    q = RefQueue(0.0, qdt, ncols)
    us, rows, vols, visited = [], [], [], []
    V = float(volume.get('V', volume.get('V0', 1.0)))
    t, idx, rule_step, nvk, divided = t0, 0, True, 1, False
    N = len(times)
    final = times[-1]
    while idx < N:
        RR.apply(net.rules, x, P, t, vdt, rule_step, V)
        a = net.props(x, P, t, V)
        Lam = sum(a)
        visited.append((tuple(net.row(x)), idx, tuple(sorted((n - q.next_slot, tuple(sorted(d.items()))) for n, d in q.pending.items()))))
        NV, NQ = t0 + nvk * vdt, q.next_time()
        if Lam == 0:
            proposed = final + vdt
            rule_step = True
        else:
            bounds = sorted({b for b in (NV, NQ) if b > t})
            if not bounds:
                lt = yield Menu('wait', [Letter('any', 0.5, 0)], dict(t=t, Lam=Lam))
            else:
                lt = yield wait_menu(t, Lam, bounds, step, final, fire_cost)
            us.append(lt.u)
            proposed = t + (-math.log(lt.u) / Lam)
            rule_step = False
        if proposed < NV and proposed < NQ:
            t = proposed
            kind = 0
        elif NV < NQ:
            t = NV
            nvk += 1
            kind = 1
            rule_step = True
        else:
            t = NQ
            kind = 2
            rule_step = False
        while idx < N and times[idx] <= t:
            rows.append(net.row(x)); vols.append(V); idx += 1
        if idx >= N:
            break        # what is due exactly at the final time stays pending
        if kind == 0:
            menu, which = rxn_menu(a, Lam, edge_cost)
            lr = yield menu
            us.append(lr.u)
            j = which[lr.name]
            dspec = net.spec['reactions'][j].get('delay')
            delay = 0.0
            if dspec:
                dm = delay_menu(dspec, P, t, 0.0, qdt, ncols, q.next_slot)
                ld = (yield dm) if dm is not None else None
                delay, used = sample_delay(dspec, P, ld)
                us.extend(used)
            net.fire(x, j, immediate=True, delayed=False)
            if delay > 0.0:
                q.add(t + delay, j)
            else:
                net.fire(x, j, immediate=False, delayed=True)
        elif kind == 1:
            if volume['type'] == 'growth':
                V = V + (math.exp(volume['rate'] * vdt) - 1.0) * V
                if volume['division_time'] > t - vdt and volume['division_time'] <= t:
                    divided = True
                    break
        else:
            for j, cnt in q.pop().items():
                for _ in range(cnt):
                    net.fire(x, j, immediate=False, delayed=True)
    return dict(us=us, rows=rows, vols=vols, times=list(times[:len(rows)]), visited=visited, divided=divided,
                queue=q.drained(net.nr), queue_next_time=q.next_time())
