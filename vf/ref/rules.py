"""Reference semantics of model rules.  rule = {type: assignment|additive|ode, target, rhs(tree)|sources, freq}
freq: 'repeated' | 'start' | 'dt' | a number (scheduled time).  ODE rules always have frequency dt."""
from . import expr as EX


def fires(rule, t, rule_step):
    f = 'dt' if rule['type'] == 'ode' else rule.get('freq', 'repeated')
    if f in ('repeated', 'repeat'):
        return True
    if f == 'dt':
        return bool(rule_step)
    if f == 'start':
        return t == 0.0
    return t == float(f)


def apply(rules, x, P, t, dt, rule_step, vol=1.0):
    """x: dict species -> value, P: dict parameter -> value; both mutated in place, declaration order"""
    for r in rules:
        if not fires(r, t, rule_step):
            continue
        env = dict(P)
        env.update(x)
        if r['type'] == 'additive':
            v = sum(x[s] for s in r['sources'])
        elif r['type'] == 'assignment':
            v = EX.ev(EX.totuple(r['rhs']), env, t, vol)
        elif r['type'] == 'ode':
            tgt = r['target']
            cur = x[tgt] if tgt in x else P[tgt]
            v = cur + EX.ev(EX.totuple(r['rhs']), env, t, vol) * dt
        else:
            raise ValueError(r['type'])
        if r['target'] in x:
            x[r['target']] = v
        else:
            P[r['target']] = v
