"""Evaluate libsbml MathML ASTs as plain SBML mathematics (no bioscrape code involved)."""
import math
import libsbml as L


class Unsupported(Exception):
    pass


def ev(node, env, t=0.0):
    ty = node.getType()
    n = node.getNumChildren()
    ch = [node.getChild(i) for i in range(n)]
    if ty in (L.AST_INTEGER,):
        return float(node.getInteger())
    if ty in (L.AST_REAL, L.AST_REAL_E, L.AST_RATIONAL):
        return float(node.getReal())
    if ty == L.AST_NAME:
        name = node.getName()
        if name not in env:
            raise KeyError(name)
        return float(env[name])
    if ty == L.AST_NAME_TIME:
        return float(t)
    if ty == L.AST_CONSTANT_E:
        return math.e
    if ty == L.AST_CONSTANT_PI:
        return math.pi
    if ty == L.AST_PLUS:
        return sum(ev(c, env, t) for c in ch)
    if ty == L.AST_TIMES:
        r = 1.0
        for c in ch:
            r *= ev(c, env, t)
        return r
    if ty == L.AST_MINUS:
        if n == 1:
            return -ev(ch[0], env, t)
        return ev(ch[0], env, t) - ev(ch[1], env, t)
    if ty == L.AST_DIVIDE:
        return ev(ch[0], env, t) / ev(ch[1], env, t)
    if ty in (L.AST_POWER, L.AST_FUNCTION_POWER):
        return ev(ch[0], env, t) ** ev(ch[1], env, t)
    if ty == L.AST_FUNCTION_EXP:
        return math.exp(ev(ch[0], env, t))
    if ty == L.AST_FUNCTION_LN:
        return math.log(ev(ch[0], env, t))
    if ty == L.AST_FUNCTION_LOG:
        if n == 2:
            return math.log(ev(ch[1], env, t)) / math.log(ev(ch[0], env, t))
        return math.log10(ev(ch[0], env, t))
    if ty == L.AST_FUNCTION_ABS:
        return abs(ev(ch[0], env, t))
    if ty == L.AST_FUNCTION_ROOT:
        if n == 2:
            return ev(ch[1], env, t) ** (1.0 / ev(ch[0], env, t))
        return math.sqrt(ev(ch[0], env, t))
    if hasattr(L, 'AST_FUNCTION_MIN') and ty == L.AST_FUNCTION_MIN:
        return min(ev(c, env, t) for c in ch)
    if hasattr(L, 'AST_FUNCTION_MAX') and ty == L.AST_FUNCTION_MAX:
        return max(ev(c, env, t) for c in ch)
    raise Unsupported('AST node type %s (%s)' % (ty, node.getName()))


def names(node, acc=None):
    """all <ci> identifiers and user-function names used in the AST"""
    acc = set() if acc is None else acc
    ty = node.getType()
    if ty == L.AST_NAME:
        acc.add(('ci', node.getName()))
    elif ty == L.AST_FUNCTION:
        acc.add(('function', node.getName()))
    for i in range(node.getNumChildren()):
        names(node.getChild(i), acc)
    return acc
