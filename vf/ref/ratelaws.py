"""Closed forms of the built-in rate laws (START-HERE notebook, section 'Chemical Reactions').
Plain Python floats, no bioscrape imports.  Modes: det, vol, stoch, stochvol."""
from collections import Counter


def falling(s, m):
    """s (s-1) ... (s-m+1); zero when fewer than m copies are present"""
    if s < m:
        return 0.0
    r = 1.0
    for j in range(m):
        r *= (s - j)
    return r


def massaction(k, reactants, x, mode='det', V=1.0):
    """reactants: sequence of species names (with repeats); x: dict name -> amount"""
    mult = Counter(reactants)
    r = len(reactants)
    val = k
    for s, m in mult.items():
        if mode in ('stoch', 'stochvol'):
            val *= falling(x[s], m)
        else:
            val *= x[s] ** m
    if mode in ('vol', 'stochvol'):
        if r == 0:
            val *= V
        else:
            val /= V ** (r - 1)
    return val


def hill(kind, k, K, n, s1, x, d=None, mode='det', V=1.0):
    s = x[s1]
    if mode in ('vol', 'stochvol'):
        s = s / V
    h = (s / K) ** n
    if kind in ('hillpositive', 'proportionalhillpositive'):
        val = k * h / (1.0 + h)
    else:
        val = k / (1.0 + h)
    if kind.startswith('proportional'):
        val *= x[d]
    return val
