"""Reference reaction networks from a JSON-able spec: stoichiometry by counting, rates from the
closed forms / the reference expression evaluator.

spec = {species: [names], x0: {name: value}, params: {name: value},
        reactions: [{reactants, products, kind, k|K|n|s1|d|rate(tree), delay: {type, ..., reactants, products}}],
        rules: [...]}   (rules are interpreted by vf/ref/rules.py)"""
from collections import Counter
from . import ratelaws as RL
from . import expr as EX


def val(spec, v):
    """numeric literal or parameter name"""
    if isinstance(v, str):
        return float(spec.get('params', {})[v])
    return float(v)


def stoich(spec):
    sp = spec['species']
    S = [[0] * len(spec['reactions']) for _ in sp]
    Sd = [[0] * len(spec['reactions']) for _ in sp]
    idx = {s: i for i, s in enumerate(sp)}
    for j, r in enumerate(spec['reactions']):
        for s, m in Counter(r.get('products', [])).items():
            S[idx[s]][j] += m
        for s, m in Counter(r.get('reactants', [])).items():
            S[idx[s]][j] -= m
        d = r.get('delay')
        if d:
            for s, m in Counter(d.get('products', [])).items():
                Sd[idx[s]][j] += m
            for s, m in Counter(d.get('reactants', [])).items():
                Sd[idx[s]][j] -= m
    return S, Sd


def rate(spec, r, x, mode='det', V=1.0, t=0.0, params=None):
    """x: dict name -> amount; params overrides spec['params'] (rules may assign parameters)"""
    P = dict(spec.get('params', {}))
    if params:
        P.update(params)

    def v(q):
        return float(P[q]) if isinstance(q, str) else float(q)
    kind = r['kind']
    if kind == 'massaction':
        return RL.massaction(v(r['k']), r.get('ma_species', r['reactants']), x, mode, V)
    if kind in ('hillpositive', 'hillnegative', 'proportionalhillpositive', 'proportionalhillnegative'):
        return RL.hill(kind, v(r['k']), v(r['K']), v(r['n']), r['s1'], x, r.get('d'), mode, V)
    if kind == 'general':
        env = dict(P)
        env.update(x)
        vol = V if mode in ('vol', 'stochvol') else 1.0
        return EX.ev(EX.totuple(r['rate']), env, t, vol)
    raise ValueError(kind)


def safe_ok(spec, j, x, S, Sd):
    """safe mode: every (immediately or later) consumed species has its required count"""
    for i, s in enumerate(spec['species']):
        a, b = S[i][j], Sd[i][j]
        if a < 0 or b < 0:
            need = -(a + b) if (a < 0 and b < 0) else -min(a, b)
            if x[s] < need:
                return False
    return True


def rates(spec, x, mode='stoch', V=1.0, t=0.0, safe=False, params=None, SSd=None):
    S, Sd = SSd if SSd else stoich(spec)
    out = []
    for j, r in enumerate(spec['reactions']):
        if safe and mode in ('stoch', 'stochvol') and not safe_ok(spec, j, x, S, Sd):
            out.append(0.0)
            continue
        a = rate(spec, r, x, mode, V, t, params)
        if safe and a < 0:
            a = 0.0
        out.append(a)
    return out
