"""Model family shared by C12 (round trip) and C14 (exported kinetic laws)."""
import itertools
from .util import sequences
from .nets import spec, ma, hill, gen

ID = lambda s: ('id', s)
NUM = lambda v: ('num', v)
SP = ['A', 'B', 'C']


def propensities(named):
    k, K, n = ('kf', 'KK', 'nn') if named else (1.7, 2.0, 2.0)
    return [
        ('massaction', lambda r, p: ma(r, p, k)),
        ('hillpositive', lambda r, p: hill('hillpositive', r, p, k, K, n, 'A')),
        ('hillnegative', lambda r, p: hill('hillnegative', r, p, k, K, n, 'B')),
        ('proportionalhillpositive', lambda r, p: hill('proportionalhillpositive', r, p, k, K, n, 'B', 'C')),
        ('proportionalhillnegative', lambda r, p: hill('proportionalhillnegative', r, p, k, K, n, 'C', 'A')),
    ]


GENERAL_RATES = [
    ('g_linear', ('*', ID('kf'), ID('A'))),
    ('g_rational', ('/', ('*', ID('kf'), ID('A')), ('+', ID('KK'), ID('B')))),
    ('g_power', ('*', ID('kf'), ('^', ID('A'), NUM(2)))),
    ('g_power_param', ('*', ID('kf'), ('^', ID('A'), ID('nn')))),
    ('g_nested_power', ('^', ('^', ID('A'), NUM(2)), NUM(0.5))),
    ('g_tower3', ('*', ID('kf'), ('^', ('^', ('^', ID('A'), ID('sh')), ID('KK')), ID('nn')))),
    ('g_tower4', ('^', ('^', ('^', ('^', ID('B'), ID('sh')), NUM(0.5)), ID('nn')), ID('mu'))),
    ('g_exp', ('*', ID('kf'), ('exp', ('neg', ID('B'))))),
    ('g_log', ('*', ID('kf'), ('log', ('+', ID('A'), NUM(1))))),
    ('g_abs', ('abs', ('-', ID('A'), ID('B')))),
    ('g_min', ('min', ID('A'), ('*', NUM(2), ID('B')))),
    ('g_max', ('max', ID('A'), ID('KK'))),
    ('g_neg', ('*', ('neg', ID('kf')), ('-', ID('B'), NUM(10)))),
    ('g_sum', ('+', ('*', ID('kf'), ID('A')), ('*', NUM(0.5), ID('C')))),
    ('g_div_chain', ('/', ('/', ID('A'), ID('KK')), ('+', NUM(1), ID('C')))),
    ('g_sci', ('*', NUM('1e-2'), ID('A'))),
    ('g_heaviside', ('*', ID('kf'), ('step', ('-', ID('A'), NUM(1.5))))),
    ('g_time', ('*', ID('kf'), ('+', NUM(1), ('t',)))),
    ('g_const', NUM(0.75)),
    ('g_exp_nested', ('exp', ('neg', ('/', ID('A'), ('+', NUM(1), ('abs', ('-', ID('B'), ID('C'))))))),),
]
PARAMS = {'kf': 1.7, 'KK': 2.0, 'nn': 2.0, 'tau': 0.3, 'mu': 0.5, 'sd': 0.2, 'sh': 2.0, 'sc': 0.1}


def delays(named):
    if named:
        return [None, dict(type='fixed', delay='tau'), dict(type='gaussian', mean='mu', std='sd'), dict(type='gamma', k='sh', theta='sc')]
    return [None, dict(type='fixed', delay=0.3), dict(type='gaussian', mean=0.5, std=0.2), dict(type='gamma', k=2.0, theta=0.1)]


def single_reaction_specs(tier):
    out = []
    maxlen = 3 if tier == 'quick' else 4
    sides = list(sequences(SP, 0, maxlen))
    x0 = {'A': 2.0, 'B': 3.0, 'C': 1.5}
    for named in (False, True):
        for pname, mk in propensities(named):
            for i, r in enumerate(sides):
                for j, p in enumerate(sides):
                    if (tier == 'quick' and ((i + 2 * j) % 5 != 0 or (pname != 'massaction' and len(r) + len(p) > 3) or (len(r) + len(p) > 4 and (i + j) % 3 != 0))) or (tier == 'thorough' and pname != 'massaction' and (i + j) % 7 != 0) \
                            or (tier == 'thorough' and pname == 'massaction' and len(r) + len(p) > 5 and (i + j) % 3 != 0):
                        continue
                    out.append(spec('%s/%s' % (pname, 'named' if named else 'numeric'), SP, x0, [mk(r, p)], PARAMS))
            for dl in delays(named)[1:]:
                for dr in ([], ['A'], ['B', 'B']):
                    for dp in ([], ['C'], ['A', 'C']):
                        d = dict(dl); d['reactants'] = dr; d['products'] = dp
                        rx = mk(['A'], ['B'])
                        rx['delay'] = d
                        out.append(spec('%s/%s/delay-%s' % (pname, 'named' if named else 'numeric', dl['type']), SP, x0, [rx], PARAMS))
    for gname, tree in GENERAL_RATES:
        for r, p in (([], ['A']), (['A'], ['B']), (['A', 'B'], ['C', 'C'])):
            out.append(spec('general/' + gname, SP, x0, [gen(r, p, tree)], PARAMS))
    return out


def rule_specs(tier):
    out = []
    x0 = {'A': 2.0, 'B': 3.0, 'C': 1.5, 'X': 0.0, 'Y': 0.0}
    rx = [ma(['A'], ['B'], 'kf')]
    freqs = ['repeated', 'start', 'dt', '0.5', 0.5, 0, 0.0]
    rules = []
    for f in freqs:
        rules.append(dict(type='additive', target='X', sources=['A', 'B'], freq=f))
        rules.append(dict(type='assignment', target='Y', rhs=('+', ('*', NUM(2), ID('A')), ID('KK')), freq=f))
        rules.append(dict(type='assignment', target='kf', rhs=('/', ID('B'), NUM(4)), freq=f))
    # firing times that need all 17 significant digits (taken from ordinary float grids), single rules only
    extra = []
    for f in (0.1 + 0.2, 1.0 / 3.0, repr(0.1 + 0.2), 2.0 / 3.0, 1234567.125, 1e-7 + 1e-9):
        extra.append(dict(type='assignment', target='Y', rhs=('+', ('*', NUM(2), ID('A')), ID('KK')), freq=f))
        extra.append(dict(type='additive', target='X', sources=['A', 'B'], freq=f))
    for r in rules + extra:
        out.append(spec('rules/1/%s/%s' % (r['type'], r['freq']), SP + ['X', 'Y'], x0, rx, PARAMS, [r]))
    for a, b in itertools.permutations(rules, 2):
        if a['target'] == b['target']:
            continue
        if tier == 'quick' and (str(a['freq']) + str(b['freq'])).count('0.5') > 1:
            continue
        out.append(spec('rules/2', SP + ['X', 'Y'], x0, rx, PARAMS, [a, b]))
    return out


def multi_specs(tier):
    out = []
    x0 = {'zeta': 2.0, 'alpha': 3.0, 'Mid': 1.5}
    names = ['zeta', 'alpha', 'Mid']     # sort order differs from declaration order
    menu = [
        ma(['zeta'], ['alpha'], 'kf'), ma(['alpha', 'alpha'], ['Mid'], 0.4), ma([], ['zeta'], 2.0),
        hill('hillpositive', ['Mid'], [], 'kf', 'KK', 'nn', 'alpha'),
        dict(ma(['zeta', 'Mid'], ['Mid'], 0.9), delay=dict(type='fixed', delay='tau', reactants=[], products=['alpha', 'alpha'])),
        gen(['alpha'], ['zeta', 'zeta'], ('/', ID('alpha'), ('+', NUM(1), ID('Mid')))),
        ma(['zeta', 'zeta', 'alpha'], ['Mid', 'Mid', 'Mid'], 0.05),
    ]
    for combo in itertools.permutations(range(len(menu)), 3):
        if (tier == 'quick' and sum(c * (i + 1) for i, c in enumerate(combo)) % 9 != 0):
            continue
        out.append(spec('multi', names, x0, [menu[i] for i in combo], PARAMS))
    return out


def big_specs(tier, delays_ok=True, rules_ok=True, hill_ok=True):
    """beyond the small family: 8 species whose sort order differs from the declaration order, 6-12 reactions of every
    propensity type, 14 named parameters, up to 4 rules"""
    names = ['zeta', 'alpha', 'Mid', 'x_9', 'Beta', 'y10', 'gamma_c', 'W']
    x0 = dict(zip(names, [2.0, 3.0, 1.5, 4.0, 0.5, 6.0, 1.0, 2.5]))
    x0r = dict(x0, X=0.0, Y=0.0)
    P = dict(PARAMS, k2=0.4, k3=2.0, k4=0.9, k5=0.05, K2=1.5, n2=3.0)
    z, a, M, x9, Be, y10, gc, W = names
    menu = [
        ma([z], [a], 'kf'), ma([a, a], [M], 'k2'), ma([], [z], 'k3'), ma([x9, Be], [y10], 0.7), ma([y10], [x9, Be], 'k4'),
        hill('hillpositive', [M], [], 'kf', 'KK', 'nn', a), hill('hillnegative', [], [gc], 'k3', 'K2', 'n2', W),
        hill('proportionalhillpositive', [gc], [gc, W], 'k4', 'KK', 'n2', y10, gc),
        hill('proportionalhillnegative', [W], [], 'k2', 'K2', 'nn', z, W),
        gen([a], [z, z], ('/', ID(a), ('+', NUM(1), ID(M)))), gen([W], [x9], ('*', ID('k5'), ('*', ID(W), ('^', ID(y10), NUM(2))))),
        ma([z, z, a], [M, M, M], 'k5'), ma([gc, W, x9, Be], [y10, y10], 0.01),
    ]
    if not hill_ok:
        menu = [r_ for r_ in menu if 'hill' not in r_['kind']]
    if delays_ok:
        menu += [dict(ma([z, M], [M], 0.9), delay=dict(type='fixed', delay='tau', reactants=[], products=[a, a])),
                 dict(ma([Be], [], 'k2'), delay=dict(type='gamma', k='sh', theta='sc', reactants=[W], products=[gc, Be])),
                 dict(ma([y10], [y10, W], 'k4'), delay=dict(type='gaussian', mean='mu', std='sd', reactants=[], products=[x9]))]
    rules = [dict(type='additive', target='X', sources=[z, a, W], freq='repeated'),
             dict(type='assignment', target='Y', rhs=('+', ('*', NUM(2), ID(y10)), ID('KK')), freq='dt'),
             dict(type='assignment', target='k5', rhs=('/', ID(Be), NUM(40)), freq='repeated'),
             dict(type='assignment', target='K2', rhs=('+', NUM(1), ID(gc)), freq='start')]
    out = []
    n = len(menu)
    for size in ((6, n) if tier == 'quick' else (5, 6, 8, 10, n)):
        for rot in range(0, n, 4 if tier == 'quick' else 1):
            rx = [menu[(rot + i) % n] for i in range(size)]
            out.append(spec('big/%d' % size, names, x0, rx, P))
            if rules_ok:
                out.append(spec('big-rules/%d' % size, names + ['X', 'Y'], x0r, rx[::-1], P, rules[:2 + (rot % 3)]))
    return out


def magnitude_specs():
    """parameter and initial values of very small and very large magnitude (named and numeric), which a writer must not round"""
    out = []
    x0 = {'A': 2.0, 'B': 3.0, 'C': 1.5}
    for tag, kon, km, knum in (('tiny', 3.2e-13, 7.5e-14, 1.5e-14), ('tiny17', 1.234567890123456e-9, 2.0000000000000004e-7, 1.0000000000000002e-3),
                               ('huge', 6.02214076e23, 3.3e15, 1.25e18)):
        P = dict(PARAMS, kon=kon, Km=km)
        rx = [ma(['A', 'B'], ['C'], 'kon'), ma(['C'], ['A'], knum),
              gen(['A'], ['B'], ('/', ('*', ID('kf'), ID('A')), ('+', ID('A'), ID('Km')))), gen(['B'], [], ('*', ID('kon'), ('*', ID('B'), ID('Km'))))]
        out.append(spec('magnitude/' + tag, SP, x0, rx, P))
        out.append(spec('magnitude/%s-initial' % tag, SP, {'A': kon, 'B': 3.0, 'C': km}, rx[:2], P))
    return out


def short_name_specs():
    """one- and few-letter lower-case species names (some are fragments of the reserved words volume / t), non-zero start values"""
    out = []
    for names in (['g', 'm', 'p', 'e'], ['vol', 'u', 'me', 'o'], ['v', 'l', 'ume', 'tt']):
        a, b, c_, d = names
        x0 = {a: 1.0, b: 4.0, c_: 2.5, d: 3.0}
        rx = [ma([a], [a, b], 'kf'), ma([b], [b, c_], 0.8), ma([b], [], 'KK'), ma([c_, d], [d], 0.05),
              gen([c_], [], ('/', ('*', ID('kf'), ID(c_)), ('+', ID('KK'), ID(b))))]
        out.append(spec('short-names/' + a, names, x0, rx, PARAMS))
        out.append(spec('short-names-rules/' + a, names + ['X'], dict(x0, X=0.0), rx[:3], PARAMS,
                        [dict(type='additive', target='X', sources=[b, d], freq='repeated')]))
    return out
