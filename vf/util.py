"""Small helpers shared by the property modules."""
import itertools, math
import numpy as np


def rel_close(a, b, rtol=1e-12, atol=0.0):
    if a == b:
        return True
    if isinstance(a, float) and isinstance(b, float) and (math.isnan(a) or math.isnan(b)):
        return math.isnan(a) and math.isnan(b)
    return abs(a - b) <= atol + rtol * max(abs(a), abs(b))


def sequences(pool, lo, hi):
    for n in range(lo, hi + 1):
        for t in itertools.product(pool, repeat=n):
            yield list(t)


def multisets(pool, lo, hi):
    for n in range(lo, hi + 1):
        for t in itertools.combinations_with_replacement(pool, n):
            yield list(t)


class Stream:
    """scripted uniform stream (hook H1)"""

    def __init__(self, values, tail=0.5):
        self.values = list(values)
        self.tail = tail

    def __enter__(self):
        import bioscrape.random as r
        r.py_verif_set_stream(self.values, self.tail)
        return self

    def status(self):
        import bioscrape.random as r
        return r.py_verif_stream_status()

    def __exit__(self, *a):
        import bioscrape.random as r
        self.consumed, self.overrun = r.py_verif_stream_status()
        r.py_verif_clear_stream()
        return False
