"""Conformance driver for engine E1: explore the reference's choice tree and replay every trace
on the real simulator under the scripted uniform stream (hook H1)."""
import numpy as np
from . import explore as EXP
from .modelspec import to_model, interface, state_vector
from .util import Stream
from .ref import ssa as RS


def grid_array(times, how='plain'):
    """the same time values in another memory layout: a strided view whose gaps hold other plausible times (the midpoints), or a
    column of a C-ordered table whose other column holds shifted times; code that walks the buffer ignoring strides reads those"""
    t = np.array(times, dtype=float)
    if how == 'plain' or len(t) < 2:
        return t
    if how == 'strided':
        base = np.empty(2 * len(t))
        base[::2] = t
        base[1::2] = np.append((t[:-1] + t[1:]) / 2.0, t[-1] + 0.5 * (t[-1] - t[-2]))
        v = base[::2]
    elif how == 'column':
        tab = np.empty((len(t), 2))
        tab[:, 0] = t
        tab[:, 1] = t + 0.37 * (t[1] - t[0])
        v = tab[:, 0]
    else:
        raise ValueError(how)
    assert not v.flags['C_CONTIGUOUS'] and np.array_equal(v, t)
    return v


class Impl:
    """the real simulator for one (spec, safe) configuration; reused across traces"""

    def __init__(self, spec, safe=False, model_cls=None, prepare=None, edited=False):
        self.spec = spec
        self.edited = edited
        self.times_repr = 'plain'      # memory layout of the time grid handed over (grid_array)
        self.start_repr = 'float'      # how the start state is handed over: float64 array, int64 array, strided view
        if edited:
            # the same definition reached through edits: reactions added one by one, rejected create_reaction calls in between
            # (a rate that names a species that does not exist; a delay parameter that is a species), the start state set on
            # the Model after the interface was built (the interface shares the model's state array)
            from .modelspec import reaction_tuple, rule_tuple
            from bioscrape.types import Model
            sp0 = spec['species'][0]
            self.model = (model_cls or Model)(species=list(spec['species']), parameters=[(k, v) for k, v in spec.get('params', {}).items()],
                                              initial_condition_dict={s: 0 for s in spec['species']})
            bads = [([sp0], [sp0, sp0], 'hillpositive', {'k': 1.1, 'K': 2.0, 'n': 2.0, 's1': 'NoSuchSpecies'}),
                    ([sp0], [], 'massaction', {'k': 0.9}, 'fixed', [sp0], [sp0, sp0], {'delay': sp0})]
            for i, r in enumerate(spec['reactions']):
                for bad in (bads if i == 0 else bads[i % 2:i % 2 + 1]):
                    try:
                        self.model.create_reaction(*bad)
                    except Exception:
                        pass
                    else:
                        raise RuntimeError('harness: a reaction that must be rejected was accepted')
                self.model.create_reaction(*reaction_tuple(r))
            for r in spec.get('rules', []):
                self.model.create_rule(*rule_tuple(r))
            self.model.py_initialize()
        else:
            self.model = to_model(spec, cls=model_cls)
        if prepare is not None:
            prepare(self.model)
        self.iface = interface(self.model, safe)
        self.order = self.model.get_species_list()
        self.perm = [self.order.index(s) for s in spec['species']]
        self.x0 = state_vector(self.model, {s: spec['x0'].get(s, 0) for s in spec['species']})
        self.sims = {}      # one simulator object per kind, re-used for every run of this configuration

    def sim(self, name):
        if name not in self.sims:
            import bioscrape.simulator as BS
            self.sims[name] = getattr(BS, name)()
        return self.sims[name]

    def start(self, x0=None, t0=0.0, dt=None):
        xv = self.x0 if x0 is None else state_vector(self.model, x0)
        if self.edited:
            order = self.model.get_species_list()
            self.model.set_species({s: float(xv[i]) for i, s in enumerate(order)})      # through the Model, after the interface exists
        else:
            arr = np.array(xv, dtype=float)
            if self.start_repr == 'int' and np.all(arr == np.round(arr)):
                arr = arr.astype(np.int64)                  # the same counts as an integer array
            elif self.start_repr == 'strided':
                base = np.full(2 * len(arr), -7.0)
                base[::2] = arr
                arr = base[::2]                              # a non-contiguous view with the same values
            self.iface.py_set_initial_state(arr)
        self.iface.py_set_initial_time(float(t0))
        if dt is not None:
            self.iface.py_set_dt(float(dt))

    def grid(self, times):
        return grid_array(times, self.times_repr)

    def rows(self, arr):
        return [[float(r[i]) for i in self.perm] for r in arr]

    def run_ssa(self, us, times, x0=None, t0=0.0, dt=None):
        from bioscrape.simulator import SSASimulator
        self.start(x0, t0, dt)
        with Stream(us) as st:
            res = self.sim('SSASimulator').py_simulate(self.iface, self.grid(times))
        out = dict(rows=self.rows(res.py_get_result()), consumed=st.consumed, overrun=st.overrun)
        self.start()   # restore the model's initial condition (shared array)
        return out


def rows_equal(a, b, tol=0.0):
    if len(a) != len(b):
        return False
    for ra, rb in zip(a, b):
        if len(ra) != len(rb):
            return False
        for u, v in zip(ra, rb):
            if u != v and not (abs(u - v) <= tol * (1 + abs(u) + abs(v))):
                return False
    return True


def compare(ref, got, tol=0.0):
    """None if conformant, else (what, message)"""
    if got['consumed'] != len(ref['us']) or got['overrun']:
        return 'draws', 'implementation consumed %d uniforms (+%d beyond the script), reference %d' % (
            got['consumed'], got['overrun'], len(ref['us']))
    if not rows_equal(ref['rows'], got['rows'], tol):
        return 'rows', 'rows differ: reference %s implementation %s' % (ref['rows'], got['rows'])
    return None


def _drain(q, nr, ncols):
    out = []
    for _ in range(ncols):
        a = np.zeros(nr)
        q.py_get_next_reactions(a)
        out.append([float(v) for v in a])
        q.py_advance_time()
    return out


def run_delay(impl, us, times, qdt, ncols, x0=None, t0=0.0, dt=None, template=None):
    from bioscrape.simulator import DelaySSASimulator, ArrayDelayQueue
    impl.start(x0, t0, dt)
    nr = len(impl.spec['reactions'])
    q = template.py_copy() if template is not None else ArrayDelayQueue.setup_queue(nr, ncols, qdt)
    with Stream(us) as st:
        res = impl.sim('DelaySSASimulator').py_delay_simulate(impl.iface, q, impl.grid(times))
    fq = res.py_get_delay_queue()
    nqt = fq.py_get_next_queue_time()
    # the template the run's queue was copied from must be untouched (read through the array it was constructed on)
    touched = bool(template is not None and getattr(template, '_verif_array', None) is not None and np.any(template._verif_array != 0))
    out = dict(rows=impl.rows(res.py_get_result()), consumed=st.consumed, overrun=st.overrun,
               queue=_drain(fq.py_copy(), nr, ncols), queue_next_time=nqt, template_touched=touched)
    impl.start()
    return out


class TemplateQueue:
    """an empty ArrayDelayQueue built on an array the harness keeps, so that the template's content stays readable"""

    def __init__(self, nr, ncols, qdt):
        from bioscrape.simulator import ArrayDelayQueue
        self._verif_array = np.zeros((nr, ncols))
        self.q = ArrayDelayQueue(self._verif_array, qdt, 0.0)

    def py_copy(self):
        return self.q.py_copy()


def make_volume(vspec):
    from bioscrape.types import Volume, StochasticTimeThresholdVolume
    if vspec['type'] == 'const':
        v = Volume()
        v.py_set_volume(float(vspec['V']))
        return v, []
    raise ValueError(vspec['type'])


def run_volume(impl, us, times, vdt, vspec, x0=None, t0=0.0, volume_obj=None):
    from bioscrape.simulator import VolumeSSASimulator
    impl.start(x0, t0, vdt)
    v = volume_obj if volume_obj is not None else make_volume(vspec)[0]
    with Stream(us) as st:
        res = impl.sim('VolumeSSASimulator').py_volume_simulate(impl.iface, v, impl.grid(times))
    out = dict(rows=impl.rows(res.py_get_result()), consumed=st.consumed, overrun=st.overrun,
               vols=[float(z) for z in res.py_get_volume()], divided=bool(res.py_cell_divided()),
               times=[float(z) for z in res.py_get_timepoints()])
    impl.start()
    return out
