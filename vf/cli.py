import argparse, importlib, json, os, sys, warnings


def main():
    ap = argparse.ArgumentParser(prog='check')
    ap.add_argument('pid', nargs='?')
    ap.add_argument('--tier', default=os.environ.get('VERIF_TIER', 'quick'), choices=['quick', 'thorough'])
    ap.add_argument('--replay')
    ap.add_argument('--setup', action='store_true')
    ap.add_argument('--no-evidence', action='store_true')
    a = ap.parse_args()
    from . import build
    build.ensure()
    build.activate()
    import bioscrape.types, bioscrape.simulator, bioscrape.lineage, bioscrape.inference  # noqa (before any fork)
    import bioscrape.sbmlutil, bioscrape.analysis, bioscrape.pid_interfaces, bioscrape.inference_setup  # noqa
    import scipy.linalg, scipy.integrate, scipy.stats  # noqa
    if a.setup:
        print('setup ok')
        return 0
    if not a.pid:
        ap.error('property id required')
    warnings.simplefilter('ignore')
    import logging
    logging.disable(logging.CRITICAL)
    from .core import Ctx, finish
    seed = int(os.environ.get('VERIF_SEED', '0') or 0)
    pid = a.pid.upper()
    mod = importlib.import_module('vf.props.' + pid.lower())
    ctx = Ctx(pid, a.tier, seed)
    if a.replay:
        rec = json.load(open(a.replay))
        if 'func' in rec['case'] and ('crash_item' in rec['case'] or 'hang_item' in rec['case']):
            from .core import replay_item
            replay_item(ctx, rec['case'])
        else:
            mod.replay(ctx, rec['case'])
        for k, v in ctx.violations.items():
            print('REPLAY reproduces class=%s: %s' % (k, v['msg']))
        if not ctx.violations:
            print('REPLAY: no violation on this tree')
        return 1 if ctx.violations else 0
    mod.run(ctx)
    return finish(ctx, write_evidence=not a.no_evidence and build.REPO == '/repo')


if __name__ == '__main__':
    sys.exit(main())
