"""spec (see vf/ref/crn.py) -> bioscrape Model / interfaces"""
import numpy as np
from .ref import expr as EX


def reaction_tuple(r):
    kind = r['kind']
    if kind == 'massaction':
        pd = {'k': r['k']}
        if 'ma_species' in r:
            pd['species'] = '*'.join(r['ma_species'])
        if 'ma_species_text' in r:
            pd['species'] = r['ma_species_text']       # the species string exactly as written (the reference reads the reactant list)
    elif kind == 'general':
        pd = {'rate': EX.render(EX.totuple(r['rate']))}
    else:
        pd = {'k': r['k'], 'K': r['K'], 'n': r['n'], 's1': r['s1']}
        if r.get('d') is not None:
            pd['d'] = r['d']
    d = r.get('delay')
    if not d:
        return (list(r.get('reactants', [])), list(r.get('products', [])), kind, pd)
    dp = {k: v for k, v in d.items() if k not in ('type', 'reactants', 'products')}
    return (list(r.get('reactants', [])), list(r.get('products', [])), kind, pd,
            d['type'], list(d.get('reactants', [])), list(d.get('products', [])), dp)


def rule_tuple(r):
    """{type: assignment|additive|ode, target, rhs(tree) | sources, freq}"""
    freq = r.get('freq', 'repeated')
    if r['type'] == 'ode':
        return ('ode', {'equation': EX.render(EX.totuple(r['rhs'])), 'target': r['target']})
    body = {'equation': '%s = %s' % (r['target'], ' + '.join(r['sources']))} if r['type'] == 'additive' else \
        {'equation': '%s = %s' % (r['target'], EX.render(EX.totuple(r['rhs'])))}
    if freq == 'repeated':
        return (r['type'], body)          # the default frequency is spelled by omission (2-tuple)
    return (r['type'], body, freq)


def to_model(spec, cls=None, **kw):
    from bioscrape.types import Model
    cls = cls or Model
    return cls(species=list(spec['species']),
               reactions=[reaction_tuple(r) for r in spec['reactions']],
               parameters=[(k, v) for k, v in spec.get('params', {}).items()],
               rules=[rule_tuple(r) for r in spec.get('rules', [])],
               initial_condition_dict=dict(spec['x0']), **kw)


def interface(m, safe=False):
    from bioscrape.simulator import ModelCSimInterface, SafeModelCSimInterface
    return SafeModelCSimInterface(m) if safe else ModelCSimInterface(m)


def state_vector(m, x):
    s2i = m.get_species2index()
    v = np.zeros(len(s2i))
    for s, i in s2i.items():
        v[i] = x[s]
    return v
