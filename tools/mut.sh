#!/bin/bash
# tools/mut.sh <ID> <outdir> [checks...]   confirm a sub-agent's mutation in its own worktree and run the checks against it
ID=$1; OUT=$2; shift 2
W=/tmp/${MUTPFX:-mut}_$ID
RES=/root/scratch/mutres/${MUTPFX:-mut}_${ID}_${OUT}.txt
exec > $RES 2>&1
cd $W || exit 9
build() { /venv/bin/python setup.py build_ext --inplace -j 4 > build.log 2>&1; echo "build rc=$?"; }
git checkout -- . ; git status --short | grep -v '^??' 
echo "== clean tree"; build
PYTHONPATH=$W /venv/bin/python $OUT/demo.py > $OUT/demo_clean.log 2>&1; echo "demo_clean rc=$?"
git apply $OUT/patch.diff; echo "apply rc=$?"
echo "== mutated tree"; build
PYTHONPATH=$W /venv/bin/python $OUT/demo.py > $OUT/demo_mut.log 2>&1; echo "demo_mut rc=$?"
PYTHONPATH=$W /venv/bin/python -m pytest -q -p no:cacheprovider --timeout=900 -x > $OUT/pytest_mut.log 2>&1; echo "pytest rc=$?"; tail -1 $OUT/pytest_mut.log
cd /verif
CHECKS="$@"
[ -z "$CHECKS" ] && CHECKS=$(/venv/bin/python -c "import json;print(' '.join(c['property_id'] for c in json.load(open('MANIFEST.json'))['checks']))")
for c in $CHECKS; do
  VERIF_REPO=$W VERIF_NOBUILD=1 ./check $c --no-evidence > /root/scratch/mutres/${MUTPFX:-mut}_${ID}_${OUT}_$c.log 2>&1; rc=$?
  echo "check $c rc=$rc $(grep -c '^VIOLATION' /root/scratch/mutres/${MUTPFX:-mut}_${ID}_${OUT}_$c.log) violation-classes"
done
echo DONE
