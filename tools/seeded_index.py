#!/venv/bin/python
"""regenerate seeded/INDEX.md (and print the table for DESIGN.md section 8) from the meta.json files"""
import glob, json, os
NOTES = json.load(open('/verif/tools/seeded_notes.json'))
rows = []
for d in sorted(glob.glob('/verif/seeded/C*/')):
    m = json.load(open(d + 'meta.json'))
    name = os.path.basename(d.rstrip('/'))
    off = m.get('official_run', {}).get('results', {})
    own = off.get(m['property']) or {}
    if off:
        det = 'yes' if own.get('exit') == 1 else 'NO'
        cls = ', '.join(c.split('/', 1)[1] if '/' in c else c for c in own.get('violation_classes', [])[:2])
        others = ', '.join(k for k, v in off.items() if k != m['property'] and v.get('exit') == 1)
    else:
        c = m.get('checks_run_against_it', {})
        det = 'yes' if c.get('own_property_check_exit') == 1 else 'NO'
        cls = ', '.join(x.split(' count=')[0].replace('class=', '').split('/', 1)[1] for x in c.get('own_property_violation_classes', [])[:2])
        others = ''
    needs = (m.get('needs_to_manifest') or '').replace('\n', ' ')
    rows.append((name, m['property'], (m.get('breaks') or '').replace('\n', ' ')[:230], needs[:200], det, cls[:120], others, NOTES.get(name) or m.get('strengthening', '')))
out = ['# Seeded property-breaking changes', '',
       'Each directory holds `patch.diff` (apply with `git -C /repo apply`), `demo.py` (fails with the change, passes without) and `meta.json`.',
       'All were produced by sub-agents that saw only the property text, and confirmed by `tools/mut.sh` before being kept.', '',
       '| change | property | what it breaks | detected by its check | violation classes reported | other checks that also fire | note |', '|---|---|---|---|---|---|---|']
for r in rows:
    out.append('| %s | %s | %s Needs: %s | %s | %s | %s | %s |' % (r[0], r[1], r[2], r[3], r[4], r[5], r[6], r[7]))
open('/verif/seeded/INDEX.md', 'w').write('\n'.join(out) + '\n')
print('| change | property | detected | by (violation classes) | note |\n|---|---|---|---|---|')
for r in rows:
    print('| %s | %s | %s | %s | %s |' % (r[0], r[1], r[4], r[5] + (('; also ' + r[6]) if r[6] else ''), r[7]))
