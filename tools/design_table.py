#!/venv/bin/python
"""regenerate seeded/INDEX.md and the table of DESIGN.md section 8 (between the seeded-table markers)"""
import collections, re, subprocess
tab = subprocess.run(['/verif/tools/seeded_index.py'], stdout=subprocess.PIPE).stdout.decode().strip()
rows = tab.splitlines()[2:]
per = collections.Counter(l.split('|')[2].strip() for l in rows)
det = sum(1 for l in rows if l.split('|')[3].strip() == 'yes')
also = collections.Counter()
for l in rows:
    m = re.search(r'; also ([C0-9, ]+)', l)
    if m:
        for c in m.group(1).split(','):
            also[c.strip()] += 1
summary = ('**Result of the final run** (`tools/run_seeded.py`, every change applied to a scratch worktree of the final `/repo` HEAD, the final '
           'checks run with `VERIF_REPO`, quick tier): %d of %d seeded changes are reported by the check of the property they were written '
           'against (per property: %s).  Other checks that fire as well are listed per row (%s).  One further change became a no-op through a '
           'repair and is kept under `seeded/_obsolete/`.  Rows whose note starts with *missed at first* are the ones that made a check grow.\n\n' % (
               det, len(rows), ', '.join('%s %d' % kv for kv in sorted(per.items())), ', '.join('%s %d' % kv for kv in sorted(also.items()))))
p = '/verif/DESIGN.md'
s = open(p).read()
a, b = s.index('<!-- seeded-table-begin -->'), s.index('<!-- seeded-table-end -->')
s = s[:a] + '<!-- seeded-table-begin -->\n' + summary + tab + '\n' + s[b:]
open(p, 'w').write(s)
print(det, 'of', len(rows))
