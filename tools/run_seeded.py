#!/venv/bin/python
"""tools/run_seeded.py [names...]: the official procedure - for every seeded change apply patch.diff to /repo, run the
listed checks (own property first, quick tier, --no-evidence), undo with git checkout, and record the outcome in the
change's meta.json and in seeded/INDEX.md.  Nothing is ever committed in /repo.  Run it only when nothing else uses /repo."""
import json, os, subprocess, sys, glob, time
V = '/verif'
TREE = '/repo'
if len(sys.argv) > 2 and sys.argv[1] == '--tree':
    # a persistent scratch worktree of /repo (git -C /repo worktree add --detach DIR HEAD): same procedure, /repo stays free
    TREE = sys.argv[2]
    del sys.argv[1:3]
ENV = dict(os.environ)
if TREE != '/repo':
    ENV['VERIF_REPO'] = TREE
names = sys.argv[1:] or sorted(os.path.basename(p) for p in glob.glob(V + '/seeded/C*') if os.path.isdir(p))
rows = []
for name in names:
    d = os.path.join(V, 'seeded', name)
    meta = json.load(open(d + '/meta.json'))
    pid = meta['property']
    extra = meta.get('also_run', []) or [c for c, v in (meta.get('checks_run_against_it', {}).get('other_checks_exit') or {}).items() if v == 1 and c not in ('C12', 'C13', 'C14', 'C17') ][:2]
    st = subprocess.run(['git', '-C', TREE, 'status', '--porcelain', '--untracked-files=no'], stdout=subprocess.PIPE).stdout.decode().strip()
    assert not st, TREE + ' is not clean: ' + st
    r = subprocess.run(['git', '-C', TREE, 'apply', d + '/patch.diff'], stderr=subprocess.PIPE)
    if r.returncode:
        print(name, 'patch does not apply to the current /repo:', r.stderr.decode()[:200])
        rows.append((name, pid, 'patch does not apply', ''))
        continue
    res = {}
    try:
        for c in [pid] + [c for c in extra if c != pid]:
            t0 = time.time()
            p = subprocess.run([V + '/check', c, '--no-evidence'], stdout=subprocess.PIPE, stderr=subprocess.STDOUT, cwd=V, env=ENV)
            out = p.stdout.decode()
            classes = [l.strip().split(' count=')[0].replace('class=', '') for l in out.splitlines() if l.strip().startswith('class=')]
            res[c] = dict(exit=p.returncode, violation_classes=classes[:12], wall_s=round(time.time() - t0, 1))
            print(name, c, 'exit', p.returncode, classes[:3])
    finally:
        subprocess.run(['git', '-C', TREE, 'checkout', '--', '.'])
    meta['official_run'] = dict(tree=TREE, how='git -C <tree> apply seeded/%s/patch.diff; ./check <ID> --no-evidence (quick tier, rebuilds /repo in place); git -C /repo checkout -- .' % name,
                                repo_head=subprocess.run(['git', '-C', TREE, 'log', '--format=%h', '-1'], stdout=subprocess.PIPE).stdout.decode().strip(),
                                results=res)
    meta['detected'] = res.get(pid, {}).get('exit') == 1
    json.dump(meta, open(d + '/meta.json', 'w'), indent=1)
    rows.append((name, pid, 'DETECTED' if meta['detected'] else 'MISSED',
                 '; '.join('%s: %s' % (c, ('exit 1 ' + ', '.join(v['violation_classes'][:2])) if v['exit'] == 1 else 'exit %d' % v['exit']) for c, v in res.items())))
subprocess.run([V + '/check', '--setup'], stdout=subprocess.DEVNULL, env=ENV)   # rebuild the unchanged tree
print('\n'.join('%-45s %s %s' % (r[0], r[1], r[2]) for r in rows))
