#!/venv/bin/python
"""tools/import_seeded.py <ID> <out> <name>: copy a confirmed sub-agent mutation into /verif/seeded/<name>/ with my own confirmation record"""
import json, os, re, shutil, sys
ID, out, name = sys.argv[1:4]
PFX = os.environ.get('MUTPFX', 'mut')
src = '/tmp/%s_%s/%s' % (PFX, ID, out)
res = open('/root/scratch/mutres/%s_%s_%s.txt' % (PFX, ID, out)).read()
def rc(tag):
    m = re.search(r'%s rc=(\d+)' % tag, res)
    return int(m.group(1)) if m else None
ok = rc('demo_clean') == 0 and rc('demo_mut') == 1 and rc('pytest') == 0 and rc('apply') == 0
checks = {m.group(1): int(m.group(2)) for m in re.finditer(r'check (C\d+) rc=(\d+)', res)}
dst = '/verif/seeded/%s' % name
os.makedirs(dst, exist_ok=True)
shutil.copy(src + '/patch.diff', dst + '/patch.diff')
shutil.copy(src + '/demo.py', dst + '/demo.py')
meta = json.load(open(src + '/meta.json'))
lines = []
for c in sorted(checks):
    logf = '/root/scratch/mutres/%s_%s_%s_%s.log' % (PFX, ID, out, c)
    v = [l.strip() for l in open(logf) if l.strip().startswith('class=')] if os.path.exists(logf) else []
    if checks[c] == 1 and c == ID:
        lines = v[:4]
mine = {
    'property': ID,
    'breaks': meta.get('summary'),
    'needs_to_manifest': meta.get('needs_to_manifest'),
    'files_changed': meta.get('files_changed'),
    'origin': 'independent sub-agent given only the property text and its own worktree',
    'confirmed_by_me': {
        'worktree': '/tmp/%s_%s (git worktree of /repo, removed afterwards)' % (PFX, ID),
        'commands': ['git checkout -- . && setup.py build_ext --inplace && python %s/demo.py  -> rc %s' % (out, rc('demo_clean')),
                     'git apply %s/patch.diff && setup.py build_ext --inplace && python %s/demo.py -> rc %s' % (out, out, rc('demo_mut')),
                     'python -m pytest -q (54 tests) -> rc %s' % rc('pytest')],
        'demo_passes_without_change': rc('demo_clean') == 0, 'demo_fails_with_change': rc('demo_mut') == 1, 'tests_pass_with_change': rc('pytest') == 0,
    },
    'checks_run_against_it': {'how': 'VERIF_REPO=<worktree> VERIF_NOBUILD=1 ./check <ID> (quick tier) on the worktree built with the change',
                              'own_property_check_exit': checks.get(ID), 'own_property_violation_classes': lines,
                              'other_checks_exit': {k: v for k, v in checks.items() if k != ID}},
    'detected': checks.get(ID) == 1,
}
json.dump(mine, open(dst + '/meta.json', 'w'), indent=1)
print(name, 'confirmed' if ok else 'NOT CONFIRMED', 'detected' if mine['detected'] else 'MISSED', {k: v for k, v in checks.items() if v})
